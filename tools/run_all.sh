#!/bin/bash
# usage: run_all.sh quick|thorough  -- runs every claimed check on /repo, in /verif
cd /verif
tier=${1:-quick}
for p in $(python3 -c "import json;print(' '.join(c['property_id'] for c in json.load(open('MANIFEST.json'))['checks']))"); do
  s=$(date +%s)
  ./check $p --tier $tier > /var/tmp/epserde-verif/all-$tier-$p.out 2>&1; rc=$?
  echo "$p rc=$rc $(( $(date +%s) - s ))s :: $(tail -1 /var/tmp/epserde-verif/all-$tier-$p.out | cut -c1-200)"
done
