#!/usr/bin/env python3
"""Regenerates /verif/MANIFEST.json from the table below (kept valid at all times)."""
import json, os
HERE = os.path.dirname(os.path.dirname(os.path.abspath(__file__)))

TECH = "contract-based deductive verification of the real code: "

CLAIMS = {
 "C01": ("Verus V-HEADER (entry points: header check followed by the grammar's parse; whole-stream round-trip lemma) + Verus V-SER/V-DSER (Vec<T>/Box<[T]> dispatch implementations incl. their trait-level round-trip instances for deep elements; serializers write exactly the encoding function; round-trip lemmas parse(enc(v)++rest)=v by induction over trait instances and sequence length) + Verus V-DESER/V-DERIVE (readers, cursors, generic sums, ranges, derive samples, deep-sequence loops and the zero-copy sequence reader skeleton proved against a format grammar for all payload types, offsets and lengths) + Kani round-trip lemmas per instantiation (complete for fixed-size types with a symbolic start offset, bounded for sequences)",
         "5 C01", "Verus: assumed contracts of primitive impls and unsafe helpers (checked by Kani for listed types); Kani: enumerated instantiations, sequence bounds stated per harness; the SerializeInner/WriteWithNames trait cycle is cut mechanically for Verus (WriteWithNames::write extracted as a free function), writers overriding write are Kani-only; to_ne_bytes/from_ne_bytes inverse is an axiom in Verus, checked by Kani"),
 "C02": ("Verus V-HEADER (deserialize_eps: header check, then the eps-copy contract of the type) + Verus V-DESER eps contracts against the same grammar as full copy (agreement is by construction of the shared parse) + Kani eps round-trip lemmas on placed buffers",
         "5 C02", "start offsets of Kani eps lemmas are concrete (listed per harness); all-offset padding carried by V-PAD/V-WRITE/V-DESER align contracts"),
 "C03": ("Kani lemmas on the real unsafe carvers: address, length, bounds, alignment, non-null of every borrowed part against the reference block list",
         "5 C03", "allocation-count half of the statement is not decided (no contract speaks about the allocator); element types and lengths enumerated/bounded"),
 "C04": ("Verus V-HEADER (a stream written for T and offered to a type U with a different type-hash recipe is refused with the type-hash error: lemma over check_header's contract) + Verus V-TYPEINFO: every TypeHash/AlignHash implementation (built-in, incl. compiler-expanded macro impls) feeds exactly the published recipe, for all type parameters; constructor feeds pairwise distinct and injective (lemmas) + Kani closed-term digests over the near-miss universe and cross-type header rejection",
         "5 C04", "xxh3 assumed collision-free on feeds; str/usize hash encodings assumed injective and prefix-free (std); the program quantifier is an enumerated universe (nm.rs); derive output is checked by Kani digests, not by Verus"),
 "C05": ("Verus V-DERIVE/V-DSER (rustc-expanded derive output of four sample definitions, both halves, generic in their parameters, with round-trip lemmas) + rustc type-checks the derive output of every sample definition + Kani lemmas per enumerated derive sample: round trips in both modes (via C01/C02 lemmas), units, tag tables, and the substitution rule as TypeId equalities",
         "5 C05", "the quantifier over all programs is not covered: enumerated definitions only (types.rs, nm.rs); the proc-macro itself is outside both verifiers"),
 "C06": ("Verus V-HEADER (write_header / serialize_on_field_write append exactly the published header followed by the encoding; whole-stream round-trip lemma) + Kani lemmas: type hashes of all primitives and of one instance of every built-in constructor equal the digests of the published names (pinned); emitted bytes equal an independent reference encoder of format 1.1 (payload for every instantiation of C01, header incl. digests recomputed from the recipe) + Verus V-TYPEINFO (hash recipes) and V-DESER (readers accept exactly the grammar)",
         "5 C06", "the reference encoder, the grammar and the recipes are fixed text in /verif and play the role of the corpus; no stored files; 64-bit little-endian target"),
 "C07": ("Verus V-PAD (padding formula, all offsets x all power-of-two units), V-WRITE (align loop, position tracking), V-DESER (reader align) + Kani byte-count and unit lemmas",
         "5 C07", "usize is 64 bits; streams shorter than the address space (precondition); units of enumerated types only in Kani, generic MaxSizeOf power-of-two is a trait-level contract"),
 "C10": ("Verus V-HEADER: check_header and both blanket entry points (deserialize_full, deserialize_eps) return exactly the row of the header decision table of the statement - for all types T, all readers obeying the reader contract, all header bytes and stream lengths - and write_header emits exactly the header the table accepts (lemma) + Kani lemma over all 2^232 values of the 29 fixed header bytes on the unmodified crate, both modes",
         "5 C10", "Verus: primitives and String are assumed contracts, xxh3 is an uninterpreted digest of the hash feed, the cookies are opaque constants (their bytes are Kani's); Kani: String::from_utf8 stubbed (std validator trusted), enumerated types"),
 "C11": ("Verus V-HEADER (the header is self-delimiting; every strict prefix of an accepted stream lands on a Short row or on an accepted header followed by a Short value, which deserialize_full answers with a read error: lemma_stream_prefix over the entry point's contract) + Verus V-DESER/V-DERIVE: Short parse => Err(ReadError) for every reader obeying the contract, and the trait-level prefix lemma (every strict prefix of a successful parse is Short) proved for all impls under contract and for deep sequences of any length + Kani cut lemmas on exact-size prefixes, both modes",
         "5 C11", "file-backed entry points (load_full, mmap) not reachable; eps bounds-check panics whitelisted by description as the statement allows"),
 "C12": ("Kani placement lemmas: Ok iff every reference block lands on a multiple of its unit, over symbolic base residues; V-DESER SliceWithPos::align contract",
         "5 C12", "residues 0..15 (0..127 for one type in thorough); pointer-to-address relation not modelled in Verus"),
 "C13": ("Verus V-HEADER (write_header, serialize_on_field_write, Serialize::serialize: on failure a write error and a prefix of the stream in the caller's sink) + Verus V-WRITE (error propagation and prefix property of write_all/align for every backend), V-SER/V-DSER (on Err the sink holds a prefix of the encoding: trait-level contract of _serialize_inner, deep-sequence loop, zero-copy sequence helper) + Kani failing-sink lemmas with symbolic failure position, partial chunk, flush failure, short/interrupted writers",
         "5 C13", "buffered-file and /dev/full sinks not reachable; sequence lengths bounded"),
 "C14": ("Kani fragmenting/failing reader lemmas over io::Read (symbolic chunk plan and failure position) + V-DESER reader contracts (position advances only on success)",
         "5 C14", "chunk plans of 3 symbolic entries then 1 byte per call; stream lengths bounded"),
 "C15": ("Verus V-DESER: tag i <-> variant i and InvalidTag(tag) for every foreign tag, all payload types, both modes + Kani tag tables over all 254 foreign bytes / all foreign words for derived enums",
         "5 C15", "derived enums: enumerated samples only"),
 "C16": ("Verus V-SER (the serializer of &[T] appends exactly the encoding of the vector of the same items, for all element types and lengths) and V-TYPEINFO (&[T] feeds the hash recipes of Vec<T>) + Kani lemmas: byte equality (header included) of slice / SerIter / vector serializations; lying iterators over all (announced, actual) in [0,3]^2",
         "5 C16", "SerIter (RefCell + generic iterator) is outside Verus' dialect: Kani only, item counts bounded (<=2-3); the fake vector over the slice's memory is an assumed function in Verus (Kani checks the real expression)"),
 "C17": ("Kani lemmas: check_zero_copy panics before any write for a type with Copy=Zero and IS_ZERO_COPY=false (run-time layer only)",
         "5 C17", "compile-time rejection (a property of all programs) is not addressed"),
 "C18": ("Kani lemmas on the real SchemaWriter: same bytes as plain serialization, rows in pre-order, within the stream, nesting without partial overlap, leaf rows tile the stream, recorded alignments hold",
         "5 C18", "alloc::fmt::format stubbed (string contents are not part of the property); payload-level (ROOT row) only; CSV/debug rendering reduced to the in-range property of row offsets"),
 "C19": ("Verus V-CURSOR: every operation of AlignedCursor except seek (new, with_capacity, read, write, flush, set_position, position, len, is_empty, into_parts, stream_position) preserves the representation invariant and has the effect of std::io::Cursor<Vec<u8>> on the abstract contents/position - for all alignment types, contents, positions and buffers, hence for histories of any length + Kani per-operation lemmas from an arbitrary reachable state against the real std::io::Cursor<Vec<u8>> as oracle (seek complete over u64 x i64; read/write bounded)",
         "5 C19", "Verus: the memory image of Vec<T> (bytes_of), all-zero default of the alignment types and the two unsafe byte views are assumed (Kani checks them on A16/A64 within its bounds); seek is Kani-only (Verus loses *self at the join of a guarded match arm that assigns through &mut self); the address-alignment clause is Kani's; Kani: content <= 6 bytes, read/write <= 3-5 bytes, position <= 20 (40 thorough)"),
}

TECHNIQUE = {
 "C01": "Verus contracts (trait-level SerializeInner contract against an encoding function, trait-level DeserializeInner contract against a grammar, round-trip lemmas joining the two; loop invariants of the deep-sequence helpers; control skeleton of the unsafe zero-copy sequence reader) + Kani round-trip lemma harnesses on the unmodified crate",
 "C02": "Verus contracts (eps-copy contract against the same grammar as full copy) + Kani eps round-trip lemma harnesses on placed buffers",
 "C03": "Kani lemma harnesses on the unsafe carvers (addresses vs. reference block list) + Verus contract of the eps sequence carver (cursor advances over exactly the written bytes)",
 "C04": "Verus contracts on every built-in TypeHash/AlignHash implementation (hash feed equals the published recipe; injectivity lemmas) + Kani closed-term digest lemmas over a near-miss universe",
 "C05": "Verus contracts on rustc-expanded derive output of sample definitions + Kani lemma harnesses per sample (round trips, units, tags, TypeId equalities of the substitution rule)",
 "C06": "Kani lemma harnesses: byte equality with an independent reference encoder (header included) + Verus contracts on hash recipes and readers",
 "C07": "Verus proof of the padding formula (bit-vector + arithmetic lemmas), loop invariant of the padding writer, reader align contracts + Kani byte-count and unit lemmas",
 "C10": "Verus contract on check_header / write_header / the blanket Deserialize and Serialize implementations against a header decision table written from the statement (all T, all readers, all header bytes) + Kani lemma harness, complete: all 29 fixed header bytes symbolic against the same table, on the unmodified crate",
 "C11": "Verus contracts (Short => ReadError) and the trait-level prefix lemma proved per implementation and by induction for sequences + Kani cut lemma harnesses",
 "C12": "Kani placement lemma harnesses over symbolic base residues on the real address check",
 "C13": "Verus contracts on the position-tracking writer, the padding loop and every serializer under contract (error propagation, prefix-of-the-encoding on failure) + Kani failing/short writer lemma harnesses incl. the real entry points",
 "C14": "Kani lemma harnesses over fragmenting and failing io::Read / ReadNoStd sources (incl. destructor-tracking elements) + Verus reader contracts",
 "C15": "Verus contracts (tag i <-> variant i, InvalidTag(tag) otherwise; all payload types) + Kani tag-table lemma harnesses",
 "C16": "Verus contract on the slice-reference serializer (encoding of &[T] = encoding of Vec<T>, unbounded) and on its hash implementations + Kani lemma harnesses: byte equality of slice / iterator / vector serializations (header included), lying iterators",
 "C17": "Kani lemma harnesses: the zero-copy run-time check panics before any write (hand-written and derived wrongly declared types); must-fail canary",
 "C18": "Kani lemma harnesses on the real SchemaWriter against plain serialization and row geometry",
 "C19": "Verus contracts on the operations of AlignedCursor (representation invariant + abstract contents/position equal to the std Cursor specification written from the statement; unbounded) + Kani per-operation lemma harnesses from an arbitrary reachable state against the real std::io::Cursor",
}

NOT_APPLICABLE = {
 "C08": "file-system and mmap calls are outside both verifiers (Kani has no model, Verus no dialect); quantifies over feature sets and thread schedules",
 "C09": "a statement about the type system over all client programs and about leak behaviour of file-bound loaders; no contract on a function within reach expresses it",
}

def main():
    ids = [json.loads(l)["id"] for l in open(os.path.join(HERE, "properties.jsonl")) if l.strip()]
    checks = []
    for pid in ids:
        if pid not in CLAIMS:
            continue
        text, ref, note = CLAIMS[pid]
        checks.append({
            "property_id": pid,
            "quick_cmd": f"./check {pid} --tier quick",
            "thorough_cmd": f"./check {pid} --tier thorough",
            "evidence_file": f"evidence/{pid}.json",
            "replay_cmd_template": f"./check {pid} --replay {{path}}",
            "engine": "verus+kani",
            "level_claimed": {"category": "proof", "text": text, "design_ref": "DESIGN.md section " + ref},
            "level_note": note,
            "technique": TECH + TECHNIQUE.get(pid, "Verus requires/ensures/invariants on functions extracted verbatim from /repo each run, Kani lemma harnesses (assume pre; call real function; assert post) where Verus cannot read the code"),
        })
    na = [{"property_id": p, "reason": r} for p, r in NOT_APPLICABLE.items() if p not in CLAIMS]
    m = {
        "version": 1,
        "setup_cmd": "python3 tools/setup.py",
        "hooks": {"guard": "none", "enable": "no hooks: all harness states are built through the public API; cargo kani sets cfg(kani) only for the harness crate",
                  "baseline_off_cmd": "cd /repo && cargo test --workspace --no-fail-fast --offline",
                  "source_commits": [], "add_only": True},
        "engines": [
            {"name": "verus", "path": "contracts/ + extract/ + lib/verus_backend.py", "serves_properties": ["C01","C02","C03","C04","C05","C06","C07","C10","C11","C12","C13","C14","C15","C16","C19"], "kind_free_text": "SMT-based deductive verifier on mechanically extracted real functions"},
            {"name": "kani", "path": "kani-harness/ + lib/kani_backend.py", "serves_properties": sorted(CLAIMS.keys()), "kind_free_text": "CBMC-based lemma harnesses over the unmodified crate (path dependency on /repo)"},
        ],
        "checks": checks,
        "notes": "exit 0 = all obligations discharged; exit 1 = VIOLATION lines; exit 2 = undecided (tool limit, lost anchor, vacuity). fix: commits in /repo are recorded in known_findings.json.",
        "not_applicable": na,
    }
    json.dump(m, open(os.path.join(HERE, "MANIFEST.json"), "w"), indent=1)

if __name__ == "__main__":
    main()
