#!/bin/bash
# usage: confirm_q.sh <name> <worktree> <prop>   (serialised: git stash is shared between worktrees)
exec flock /var/tmp/lanes/confirm.lock /verif/tools/confirm_seed.sh "$@"
