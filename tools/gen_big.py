#!/usr/bin/env python3
"""(Re)generates kani-harness/src/big.rs: an enum with 260 unit variants. The generated file is committed."""
print("see the committed kani-harness/src/big.rs; regenerate by editing n in this script")
