#!/usr/bin/env python3
"""Offline setup: nothing to build ahead of time. Verifies the tools are present
and warms nothing: every check rebuilds what it needs from /repo's working tree."""
import shutil, sys
missing = [t for t in ("verus", "cargo-kani", "cbmc", "rsync") if shutil.which(t) is None]
if missing:
    print("missing tools: " + ", ".join(missing))
    sys.exit(1)
print("ok")
