#!/bin/bash
# usage: seed_lane.sh <lane-name> <seed>:<prop>[,<prop>...] ...
# Runs seeds one after the other in a private scratch worktree + work dir, so
# several lanes can run side by side. (The registered procedure - apply to /repo,
# run, undo - is tools/seed_test.sh; this is the same check code pointed at a
# worktree via VERIF_REPO.)
lane=$1; shift
wt=/tmp/seedrepo-$lane
export VERIF_WORK=/var/tmp/epserde-verif-$lane
export VERIF_JOBS=${VERIF_JOBS:-5}
export VERIF_NO_EVIDENCE=1
git -C /repo worktree remove --force $wt 2>/dev/null
git -C /repo worktree add -q $wt HEAD || exit 2
cp /repo/Cargo.lock $wt/ 2>/dev/null
cd /verif
for item in "$@"; do
  seed=${item%%:*}; props=${item#*:}
  git -C $wt checkout -q -- . ; git -C $wt apply /verif/seeded/$seed/patch.diff || { echo "$seed: patch does not apply"; continue; }
  for p in ${props//,/ }; do
    VERIF_REPO=$wt ./check $p --tier ${TIER:-quick} > /verif/seeded/$seed/check-$p.out 2>&1; rc=$?
    echo "seed=$seed prop=$p exit=$rc :: $(grep -c '^VIOLATION' /verif/seeded/$seed/check-$p.out) violation(s) :: $(grep '^VIOLATION' /verif/seeded/$seed/check-$p.out | head -1 | sed 's/.*obligation=//' | cut -c1-90)"
  done
done
git -C /repo worktree remove --force $wt
rm -rf $VERIF_WORK
