#!/bin/bash
# usage: confirm_seed.sh <name> <agent worktree> <property>
# Confirms in the scratch worktree: existing suite passes with the change, the
# demo fails with it and passes without it; then stores the seed under /verif/seeded/<name>.
set -u
name=$1; dir=$2; prop=$3
out=/verif/seeded/$name
mkdir -p $out
cd $dir || exit 2
export CARGO_NET_OFFLINE=true
cp DEMO/patch.diff $out/patch.diff
cp epserde/tests/zz_demo.rs $out/zz_demo.rs
[ -f DEMO/README.md ] && cp DEMO/README.md $out/README.agent.md
# 1. existing suite with the change (demo moved aside)
mv epserde/tests/zz_demo.rs /tmp/zz_demo_$name.rs
cargo test --workspace --offline --no-fail-fast > $out/suite_with_change.log 2>&1; s1=$?
pass1=$(grep -E "^test result" $out/suite_with_change.log | awk '{p+=$4; f+=$6} END {print p" passed "f" failed"}')
mv /tmp/zz_demo_$name.rs epserde/tests/zz_demo.rs
# 2. demo with the change
cargo test -p epserde --offline --test zz_demo > $out/demo_with_change.log 2>&1; s2=$?
# 3. demo without the change
git stash push -q -- epserde/src epserde-derive/src
cargo test -p epserde --offline --test zz_demo > $out/demo_without_change.log 2>&1; s3=$?
git stash pop -q
echo "$name: suite_with_change rc=$s1 ($pass1); demo_with_change rc=$s2 (want !=0); demo_without_change rc=$s3 (want 0)"
python3 - <<PY
import json
json.dump({"property":"$prop","name":"$name","confirmed":{"existing_suite_with_change_rc":$s1,"existing_suite":"$pass1","demo_with_change_rc":$s2,"demo_without_change_rc":$s3},
 "ran":["cargo test --workspace --offline --no-fail-fast (demo moved aside)","cargo test -p epserde --offline --test zz_demo (with change)","git stash; cargo test -p epserde --offline --test zz_demo; git stash pop"]},
 open("$out/meta.json","w"),indent=1)
PY
rm -f $out/suite_with_change.log
