#!/usr/bin/env python3
"""Builds /verif/seeded/SUMMARY.md from seeded/*/meta.json and check-*.out."""
import glob, json, os, re

HERE = '/verif/seeded'


def outcome_cells(d, equivalent):
    cells = []
    for f in sorted(glob.glob(os.path.join(d, 'check-*.out'))):
        prop = re.search(r'check-(C\d\d)\.out', f).group(1)
        txt = open(f, errors='replace').read()
        vio = re.findall(r'^VIOLATION property=\S+ replay=\S+ obligation=(\S+)(.*)$', txt, re.M)
        und = len(re.findall(r'^UNDECIDED', txt, re.M))
        if equivalent:
            if vio:
                cells.append(f"{prop}: **ALARM** " + ", ".join(v[0] for v in vio[:3]))
            elif und:
                cells.append(f"{prop}: undecided ({und})")
            else:
                cells.append(f"{prop}: quiet")
        elif vio:
            cells.append(f"{prop}: " + ", ".join(
                v[0].replace('kani/', '').replace('verus/', 'verus:')
                + (' (no-failing-input-found)' if 'no-failing-input-found' in v[1] else '') for v in vio[:4]))
        else:
            cells.append(f"{prop}: not caught" + (f" ({und} undecided)" if und else ""))
    return cells


seeds, eqs = [], []
for d in sorted(glob.glob(HERE + '/*/')):
    name = os.path.basename(d.rstrip('/'))
    mp = os.path.join(d, 'meta.json')
    if not os.path.exists(mp):
        continue
    meta = json.load(open(mp))
    if meta.get('equivalent'):
        eqs.append((name, meta, outcome_cells(d, True)))
    else:
        seeds.append((name, meta, outcome_cells(d, False)))

readme = {}
rp = os.path.join(HERE, 'EQ-README.md')
if os.path.exists(rp):
    for l in open(rp):
        m = re.match(r"- eq-(\d+)\.diff: (.*?)\. Equivalence", l)
        if m:
            readme[m.group(1)] = m.group(2)[:300]

with open(HERE + '/SUMMARY.md', 'w') as f:
    f.write("# Seeded changes and the checks that catch them\n\n")
    f.write("Each change was written by a sub-agent that saw only the property text and a scratch worktree, and was confirmed "
            "(existing suite passes with it; demo fails with it, passes without it). `check-<prop>.out` next to each patch is the "
            "output of `./check <prop> --tier quick` with the patch applied.\n\n")
    f.write("| seed | breaks | change | caught by |\n|---|---|---|---|\n")
    for name, meta, cells in seeds:
        f.write(f"| {name} | {meta.get('property')} | {meta.get('what', '')} | " + "<br>".join(cells) + " |\n")
    f.write("\n## Behaviour-preserving refactorings (no check may raise an alarm)\n\n")
    f.write("Eighteen refactorings written by two sub-agents (`EQ-README.md`, `EQ-README-2.md` argue why each is an exact equivalence; the existing "
            "suite passes with each). `quiet` = exit 0, every obligation discharged on the refactored tree; `undecided` = "
            "exit 2, some obligation could not be decided on the new shape of the code (never an alarm); **ALARM** = a "
            "VIOLATION line, i.e. a false alarm of the machinery.\n\n")
    f.write("| patch | refactoring | outcome per property |\n|---|---|---|\n")
    for name, meta, cells in eqs:
        f.write(f"| {name} | {readme.get(name[3:], '') or meta.get('what', '')} | " + "<br>".join(cells) + " |\n")
print('written', HERE + '/SUMMARY.md')
