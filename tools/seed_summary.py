#!/usr/bin/env python3
"""Builds /verif/seeded/SUMMARY.md from seeded/*/meta.json and check-*.out."""
import glob, json, os, re
rows = []
for d in sorted(glob.glob('/verif/seeded/*/')):
    name = os.path.basename(d.rstrip('/'))
    mp = os.path.join(d, 'meta.json')
    if not os.path.exists(mp):
        continue
    meta = json.load(open(mp))
    what = meta.get('what', '')
    caught = []
    for f in sorted(glob.glob(os.path.join(d, 'check-*.out'))):
        prop = re.search(r'check-(C\d\d)\.out', f).group(1)
        txt = open(f).read()
        vio = re.findall(r'^VIOLATION property=\S+ replay=\S+ obligation=(\S+)(.*)$', txt, re.M)
        und = len(re.findall(r'^UNDECIDED', txt, re.M))
        if vio:
            caught.append(f"{prop}: " + ", ".join(v[0].replace('kani/', '').replace('verus/', 'verus:') + (' (no-failing-input-found)' if 'no-failing-input-found' in v[1] else '') for v in vio[:4]))
        else:
            caught.append(f"{prop}: not caught" + (f" ({und} undecided)" if und else ""))
    rows.append((name, meta.get('property'), what, caught))
with open('/verif/seeded/SUMMARY.md', 'w') as f:
    f.write("# Seeded changes and the checks that catch them\n\n")
    f.write("Each change was written by a sub-agent that saw only the property text and a scratch worktree, and was confirmed "
            "(existing suite passes with it; demo fails with it, passes without it). `check-<prop>.out` next to each patch is the "
            "output of `./check <prop> --tier quick` with the patch applied.\n\n")
    f.write("| seed | breaks | change | caught by |\n|---|---|---|---|\n")
    for name, prop, what, caught in rows:
        f.write(f"| {name} | {prop} | {what} | " + "<br>".join(caught) + " |\n")
print(open('/verif/seeded/SUMMARY.md').read())
