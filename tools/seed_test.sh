#!/bin/bash
# usage: seed_test.sh <seed-name> <prop> [<prop>...]
# Applies /verif/seeded/<seed>/patch.diff to /repo, runs the quick checks of the
# given properties (evidence not written), and undoes the change.
seed=$1; shift
cd /verif
git -C /repo apply /verif/seeded/$seed/patch.diff || { echo "patch does not apply"; exit 2; }
mkdir -p /verif/seeded/$seed
for p in "$@"; do
  VERIF_NO_EVIDENCE=1 ./check $p --tier ${TIER:-quick} > /var/tmp/epserde-verif/seed-$seed-$p.out 2>&1
  rc=$?
  echo "seed=$seed prop=$p exit=$rc: $(grep -c '^VIOLATION' /var/tmp/epserde-verif/seed-$seed-$p.out) violations; $(tail -1 /var/tmp/epserde-verif/seed-$seed-$p.out | cut -c1-160)"
  grep '^VIOLATION' /var/tmp/epserde-verif/seed-$seed-$p.out | cut -c1-220 | head -4
  cp /var/tmp/epserde-verif/seed-$seed-$p.out /verif/seeded/$seed/check-$p.out
done
git -C /repo checkout -- .
git -C /repo status --short | grep -v Cargo.lock
