#!/bin/bash
# usage: run_all_parallel.sh quick|thorough
# Runs every claimed check on /repo from /verif in three streams with private work
# directories (evidence is written to /verif/evidence as usual).
cd /verif
tier=${1:-quick}
run_stream() {
  name=$1; shift
  export VERIF_WORK=/var/tmp/epserde-verif-s$name VERIF_JOBS=${VERIF_JOBS:-5}
  for p in "$@"; do
    s=$(date +%s)
    ./check $p --tier $tier > /var/tmp/all-$tier-$p.out 2>&1; rc=$?
    echo "$p rc=$rc $(( $(date +%s) - s ))s :: $(tail -1 /var/tmp/all-$tier-$p.out | cut -c1-200)"
  done
  rm -rf $VERIF_WORK
}
run_stream 1 C05 C12 C17 C10 C15 C19 C16 C11 &
run_stream 2 C04 C01 C14 C13 &
run_stream 3 C06 C07 C03 C18 C02 &
wait
