"""A small Rust lexer: enough for brace matching, attribute/comment removal and
token-level comparison of extracted items with their source."""
import re

TOKEN_RE = re.compile(r"""
    (?P<ws>\s+)
  | (?P<lc>//[^\n]*)
  | (?P<bc>/\*)
  | (?P<rawstr>b?r(?P<hashes>\#*)")
  | (?P<str>b?"(?:[^"\\]|\\.)*")
  | (?P<char>b?'(?:[^'\\\n]|\\(?:[nrt\\0'"]|x[0-9a-fA-F]{2}|u\{[0-9a-fA-F_]+\}))')
  | (?P<life>'[A-Za-z_][A-Za-z0-9_]*)
  | (?P<num>\d[0-9A-Za-z_]*(?:\.\d[0-9A-Za-z_]*)?)
  | (?P<ident>(?:r\#)?[A-Za-z_][A-Za-z0-9_]*)
  | (?P<punct>::|->|=>|==|!=|<=|>=|&&|\|\||\+=|-=|\*=|/=|%=|\^=|&=|\|=|<<=|>>=|<<|\.\.=|\.\.\.|\.\.|[{}()\[\];,.:<>=!&|+\-*/%^~@#$?])
""", re.X | re.S)


class Tok:
    __slots__ = ("kind", "text", "start", "end")

    def __init__(self, kind, text, start, end):
        self.kind, self.text, self.start, self.end = kind, text, start, end

    def __repr__(self):
        return f"{self.kind}:{self.text!r}@{self.start}"


def lex(src, keep_trivia=False):
    """-> list of Tok. Comments and whitespace are trivia."""
    out = []
    i, n = 0, len(src)
    while i < n:
        m = TOKEN_RE.match(src, i)
        if not m:
            raise ValueError("cannot lex at %d: %r" % (i, src[i:i + 30]))
        kind = m.lastgroup
        if kind == "hashes":
            kind = "rawstr"
        j = m.end()
        if kind == "bc":
            depth = 1
            k = j
            while depth and k < n:
                if src.startswith("/*", k):
                    depth += 1
                    k += 2
                elif src.startswith("*/", k):
                    depth -= 1
                    k += 2
                else:
                    k += 1
            j = k
            kind = "comment"
        elif kind == "lc":
            kind = "comment"
        elif kind == "rawstr":
            hashes = m.group("hashes")
            close = '"' + hashes
            k = src.index(close, j)
            j = k + len(close)
            kind = "str"
        if kind in ("ws", "comment"):
            if keep_trivia:
                out.append(Tok(kind, src[i:j], i, j))
        else:
            out.append(Tok(kind, src[i:j], i, j))
        i = j
    return out


OPEN = {"{": "}", "(": ")", "[": "]"}
CLOSE = {"}", ")", "]"}


def match_close(toks, i):
    """toks[i] is an opening bracket; return index of its closing bracket."""
    depth = 0
    for k in range(i, len(toks)):
        t = toks[k].text
        if toks[k].kind == "punct" and t in OPEN:
            depth += 1
        elif toks[k].kind == "punct" and t in CLOSE:
            depth -= 1
            if depth == 0:
                return k
    raise ValueError("unbalanced brackets")


def token_texts(src):
    return [t.text for t in lex(src)]
