"""Mechanical extraction of real epserde items into a single-file Verus unit.

A unit is described by a template (/verif/contracts/<UNIT>.rs.tpl): ordinary
Verus text (spec functions, lemmas, assumed specifications) plus directives

    //@item <path relative to /repo> props=C07,C12 <<anchor text>>
    //@  <op> [args]
    //@| text belonging to the preceding op
    //@end

The item that starts at the (unique) anchor is copied verbatim from the file
in /repo's working tree; every difference between the copied text and the
emitted text is an *edit region* `/*@rN*/new/*@eN*/` whose original text is
kept in a side table. `self_check` undoes all regions and requires token
equality with the source item, so the only differences between verified and
compiled text are the listed, mechanically applied edit kinds:

  R1 attr        outer attributes (#[...]) removed
  R2 impl_arg    argument-position `impl Trait` -> named generic parameter
  R3 replace     path prefix normalisation for the single-file unit
  R4 drop        a trait/impl item dropped (listed in evidence)
  R5 external    body hidden, `#[verifier::external_body]` (assumed contract)
  R6 spec        requires/ensures/invariant/decreases/ghost binder/proof hint
  R7 ret         the return value is given a name: `-> T` => `-> (r: T)`

ops inside an //@item block (each may be preceded by `sub <<anchor>>` to target
a method inside an impl/trait item):
  ret NAME | impl_arg | spec | body_prefix | loop N | loop_iter N NAME |
  external_body | external_body_drop | drop <<anchor>> |
  replace <<old tokens>> <<new text>> | attr_before TEXT
"""
import os
import re
import sys

sys.path.insert(0, os.path.dirname(os.path.abspath(__file__)))
import rslex  # noqa: E402


class ExtractError(Exception):
    """Lost anchor / unparsable item: the run is UNDECIDED, never a violation."""


class Edit:
    def __init__(self, start, end, new, kind):
        self.start, self.end, self.new, self.kind = start, end, new, kind


DIRECTIVE = re.compile(r"^\s*//@(.*)$")
ANCH = re.compile(r"<<(.*?)>>")


def parse_template(text):
    """-> list of ("text", str) | ("item", dict)"""
    segs = []
    lines = text.split("\n")
    i = 0
    buf = []
    while i < len(lines):
        m = DIRECTIVE.match(lines[i])
        if m and m.group(1).startswith("item "):
            if buf:
                segs.append(("text", "\n".join(buf) + "\n"))
                buf = []
            head = m.group(1)[5:]
            am = ANCH.search(head)
            if not am:
                raise ExtractError("item directive without <<anchor>>: " + lines[i])
            pre = head[:am.start()].split()
            item = {"file": pre[0], "anchor": am.group(1), "props": [], "ops": [], "name": None}
            for w in pre[1:]:
                if w.startswith("props="):
                    item["props"] = w[6:].split(",")
                if w.startswith("name="):
                    item["name"] = w[5:]
                if w.startswith("fn="):
                    item["fn"] = w[3:]
                if w == "optional":
                    # a leaf item nobody else in the unit depends on: if its
                    # anchors are lost it is left out (and reported undecided)
                    # instead of making the whole unit undecided
                    item["optional"] = True
                if w.startswith("back="):
                    # the anchor lies inside the item head (pretty-printed
                    # expansions break lines): the item starts at the nearest
                    # preceding occurrence of this keyword
                    item["back"] = w[5:]
            i += 1
            cur_sub = None
            while i < len(lines):
                m2 = DIRECTIVE.match(lines[i])
                if not m2:
                    raise ExtractError("unterminated //@item block at line %d" % i)
                d = m2.group(1)
                if d.strip() == "end":
                    break
                if d.startswith("|"):
                    if not item["ops"]:
                        raise ExtractError("continuation without op")
                    item["ops"][-1]["text"] += d[1:] + "\n"
                else:
                    d = d.strip()
                    if d.startswith("sub "):
                        cur_sub = ANCH.search(d).group(1)
                    elif d == "top":
                        cur_sub = None
                    else:
                        parts = d.split(None, 1)
                        op = {"op": parts[0], "arg": parts[1] if len(parts) > 1 else "",
                              "sub": cur_sub, "text": ""}
                        item["ops"].append(op)
                i += 1
            segs.append(("item", item))
            i += 1
            continue
        buf.append(lines[i])
        i += 1
    if buf:
        segs.append(("text", "\n".join(buf)))
    return segs


def find_unique(src, anchor, what):
    n = src.count(anchor) if "@@" not in anchor else 0
    if n == 0:
        # rustc's pretty printer breaks long item heads over several lines:
        # retry with any run of white space matching any other. `@@` in an
        # anchor stands for "any bounds" (text without braces or semicolons),
        # so that an item is still found when only its trait bounds change.
        import re as _re
        def piece(w):
            return r"[^{};]*?".join(_re.escape(x) for x in w.split("@@"))
        pat = r"\s+".join(piece(w) for w in anchor.split())
        ms = list(_re.finditer(pat, src))
        if len(ms) == 1:
            return ms[0].start()
        if len(ms) > 1:
            raise ExtractError(f"ambiguous anchor {anchor!r} in {what} ({len(ms)} matches)")
        raise ExtractError(f"lost anchor {anchor!r} in {what}")
    if n > 1:
        raise ExtractError(f"ambiguous anchor {anchor!r} in {what} ({n} matches)")
    return src.index(anchor)


class Item:
    """Token view of one source item and the edits applied to it."""

    def __init__(self, src, start, what):
        self.src = src
        self.what = what
        toks = rslex.lex(src[start:])
        for t in toks:
            t.start += start
            t.end += start
        # body: first `{` or `;` at bracket depth 0
        depth = 0
        body = None
        for k, t in enumerate(toks):
            if t.kind == "punct":
                if t.text in "([":
                    depth += 1
                elif t.text in ")]":
                    depth -= 1
                elif depth == 0 and t.text == "{":
                    body = k
                    break
                elif depth == 0 and t.text == ";":
                    body = k
                    break
        if body is None:
            raise ExtractError("cannot find the body of " + what)
        if toks[body].text == "{":
            end = rslex.match_close(toks, body)
        else:
            end = body
        self.toks = toks[:end + 1]
        self.body = body
        self.start = start
        self.end = self.toks[-1].end
        self.edits = []
        self.rules = []     # (old token texts, new text) of the replace ops seen so far

    # -- helpers over a (sub-)item token range -------------------------------
    def sub_range(self, anchor):
        """token index range [a, b] of the method starting at `anchor` inside this item"""
        if anchor is None:
            return 0, len(self.toks) - 1, self.body
        seg = self.src[self.start:self.end]
        off = find_unique(seg, anchor, self.what) + self.start
        a = next(k for k, t in enumerate(self.toks) if t.start >= off)
        depth = 0
        body = None
        for k in range(a, len(self.toks)):
            t = self.toks[k]
            if t.kind == "punct":
                if t.text in "([":
                    depth += 1
                elif t.text in ")]":
                    depth -= 1
                elif depth == 0 and t.text in "{;":
                    body = k
                    break
        if body is None:
            raise ExtractError("cannot find body of sub-item " + anchor)
        b = rslex.match_close(self.toks, body) if self.toks[body].text == "{" else body
        return a, b, body

    def add(self, start, end, new, kind):
        for e in self.edits:
            if not (end <= e.start or start >= e.end) and not (start == end or e.start == e.end):
                raise ExtractError(f"overlapping edits in {self.what} ({kind} vs {e.kind})")
        self.edits.append(Edit(start, end, new, kind))

    # -- R1 -------------------------------------------------------------------
    def strip_attrs(self):
        k = 0
        while k < len(self.toks):
            t = self.toks[k]
            if t.kind == "punct" and t.text == "#":
                j = k + 1
                if j < len(self.toks) and self.toks[j].text == "!":
                    j += 1
                if j < len(self.toks) and self.toks[j].text == "[":
                    c = rslex.match_close(self.toks, j)
                    self.add(t.start, self.toks[c].end, "", "R1 attr")
                    k = c + 1
                    continue
            k += 1

    # -- ops ---------------------------------------------------------------------
    def op_ret(self, sub, name):
        a, b, body = self.sub_range(sub)
        arrow = None
        depth = 0
        for k in range(a, body):
            t = self.toks[k]
            if t.kind == "punct" and t.text in "([":
                depth += 1
            elif t.kind == "punct" and t.text in ")]":
                depth -= 1
            elif depth == 0 and t.text == "->":
                arrow = k
        if arrow is None:
            raise ExtractError("ret: no return type in " + (sub or self.what))
        endk = body
        for k in range(arrow + 1, body):
            if self.toks[k].kind == "ident" and self.toks[k].text == "where":
                endk = k
                break
        self.add(self.toks[arrow + 1].start, self.toks[arrow + 1].start, f"({name}: ", "R7 ret")
        self.add(self.toks[endk - 1].end, self.toks[endk - 1].end, ")", "R7 ret")

    def op_impl_arg(self, sub):
        a, b, body = self.sub_range(sub)
        # parameter list = first (...) after `fn name`
        fnk = next(k for k in range(a, body) if self.toks[k].text == "fn")
        namek = fnk + 1
        par = next(k for k in range(namek, body) if self.toks[k].text == "(")
        parc = rslex.match_close(self.toks, par)
        gens = []
        k = par
        idx = 0
        while k < parc:
            t = self.toks[k]
            if t.kind == "ident" and t.text == "impl":
                # bound runs to the `,` or `)` at this nesting level (angle-aware)
                ang = 0
                j = k + 1
                while j < parc:
                    tt = self.toks[j].text
                    if tt == "<":
                        ang += 1
                    elif tt == ">":
                        ang -= 1
                    elif tt in "([":
                        j = rslex.match_close(self.toks, j)
                    elif tt == "," and ang == 0:
                        break
                    j += 1
                bound = self.src[self.toks[k + 1].start:self.toks[j - 1].end]
                # replace ops already applied inside the bound move with it
                lo, hi = t.start, self.toks[j - 1].end
                self.edits = [e for e in self.edits if not (lo <= e.start and e.end <= hi)]
                for oldt, new in self.rules:
                    bt = rslex.lex(bound)
                    out, q = [], 0
                    while q < len(bt):
                        if [x.text for x in bt[q:q + len(oldt)]] == oldt:
                            out.append(new)
                            q += len(oldt)
                        else:
                            out.append(bt[q].text)
                            q += 1
                    bound = " ".join(x for x in out if x)
                g = f"ImplArg{idx}"
                idx += 1
                gens.append(f"{g}: {bound}")
                self.add(t.start, self.toks[j - 1].end, g, "R2 impl_arg")
                k = j
                continue
            k += 1
        if not gens:
            raise ExtractError("impl_arg: no `impl Trait` argument in " + (sub or self.what))
        if self.toks[namek + 1].text == "<":
            # existing generics: lifetimes must stay first, so append before `>`
            gc = None
            ang = 0
            for j in range(namek + 1, par):
                if self.toks[j].text == "<":
                    ang += 1
                elif self.toks[j].text == ">":
                    ang -= 1
                    if ang == 0:
                        gc = j
                        break
            prev = self.toks[gc - 1].text
            sep = "" if prev == "," else ", "
            self.add(self.toks[gc].start, self.toks[gc].start, sep + ", ".join(gens), "R2 impl_arg")
        else:
            p = self.toks[namek].end
            self.add(p, p, "<" + ", ".join(gens) + ">", "R2 impl_arg")

    def op_spec(self, sub, text):
        a, b, body = self.sub_range(sub)
        p = self.toks[body].start
        self.add(p, p, "\n" + text, "R6 spec")

    def op_body_prefix(self, sub, text):
        a, b, body = self.sub_range(sub)
        p = self.toks[body].end
        self.add(p, p, "\n" + text, "R6 spec")

    def nth_loop(self, sub, n):
        a, b, body = self.sub_range(sub)
        cnt = 0
        for k in range(body, b):
            t = self.toks[k]
            if t.kind == "ident" and t.text in ("for", "while", "loop"):
                cnt += 1
                if cnt == n:
                    # loop body: first `{` at depth 0 after the keyword
                    depth = 0
                    for j in range(k + 1, b):
                        tt = self.toks[j]
                        if tt.kind == "punct" and tt.text in "([":
                            depth += 1
                        elif tt.kind == "punct" and tt.text in ")]":
                            depth -= 1
                        elif depth == 0 and tt.text == "{":
                            return k, j
        raise ExtractError(f"loop {n} not found in " + (sub or self.what))

    def op_loop(self, sub, n, text):
        k, j = self.nth_loop(sub, n)
        p = self.toks[j].start
        self.add(p, p, "\n" + text, "R6 spec")

    def op_loop_pre(self, sub, n, text):
        k, j = self.nth_loop(sub, n)
        p = self.toks[k].start
        self.add(p, p, text + "\n", "R6 spec")

    def op_loop_body_prefix(self, sub, n, text):
        k, j = self.nth_loop(sub, n)
        p = self.toks[j].end
        self.add(p, p, "\n" + text, "R6 spec")

    def op_loop_body_suffix(self, sub, n, text):
        k, j = self.nth_loop(sub, n)
        c = rslex.match_close(self.toks, j)
        p = self.toks[c].start
        self.add(p, p, text + "\n", "R6 spec")

    def op_body_suffix_before(self, sub, anchor, text):
        """insert ghost text before the statement starting at `anchor`"""
        a, b, body = self.sub_range(sub)
        seg = self.src[self.toks[body].start:self.toks[b].end]
        off = find_unique(seg, anchor, self.what) + self.toks[body].start
        self.add(off, off, text + "\n", "R6 spec")

    def op_loop_iter(self, sub, n, name):
        k, j = self.nth_loop(sub, n)
        ink = next(x for x in range(k, j) if self.toks[x].kind == "ident" and self.toks[x].text == "in")
        p = self.toks[ink].end
        self.add(p, p, f" {name}:", "R6 spec")

    def op_external(self, sub, dropbody):
        a, b, body = self.sub_range(sub)
        p = self.toks[a].start
        self.add(p, p, "#[verifier::external_body]\n", "R5 external")
        if dropbody and self.toks[body].text == "{":
            self.add(self.toks[body].end, self.toks[b].start, " unimplemented!() ", "R5 external")

    def op_attr_before(self, sub, text):
        a, b, body = self.sub_range(sub)
        p = self.toks[a].start
        self.add(p, p, text + "\n", "R6 spec")

    def op_drop(self, anchor):
        a, b, body = self.sub_range(anchor)
        start = self.toks[a].start
        # the item's doc comments and attributes go with it
        while True:
            ls = self.src.rfind("\n", 0, start - 1) if start > 0 else -1
            prev_line_start = self.src.rfind("\n", 0, ls) + 1 if ls > 0 else 0
            line_start = self.src.rfind("\n", 0, start) + 1
            if self.src[line_start:start].strip():
                break
            prev = self.src[prev_line_start:line_start].strip()
            if prev.startswith("//") or prev.startswith("#["):
                start = prev_line_start
                if start <= self.start:
                    break
            else:
                break
        end = self.toks[b].end
        self.edits = [e for e in self.edits if not (start <= e.start and e.end <= end)]
        self.add(start, end, "", "R4 drop")

    def op_replace(self, sub, old, new):
        a, b, body = self.sub_range(sub)
        oldt = rslex.token_texts(old)
        self.rules.append((oldt, new))
        n = 0
        k = a
        while k + len(oldt) <= b + 1:
            if [t.text for t in self.toks[k:k + len(oldt)]] == oldt:
                covered = any(e.start <= self.toks[k].start < e.end for e in self.edits)
                if not covered:
                    self.add(self.toks[k].start, self.toks[k + len(oldt) - 1].end, new, "R3 replace")
                    n += 1
                k += len(oldt)
            else:
                k += 1
        if n == 0:
            raise ExtractError(f"replace: {old!r} not found in " + (sub or self.what))

    # -- output -------------------------------------------------------------------
    def render(self, region_base):
        """-> (text, regions) where regions maps id -> (orig, kind)"""
        edits = sorted(self.edits, key=lambda e: (e.start, e.end))
        out = []
        regions = {}
        pos = self.start
        rid = region_base
        for e in edits:
            if e.start < pos:
                raise ExtractError("overlapping edits in " + self.what)
            out.append(self.src[pos:e.start])
            out.append(f"/*@r{rid}*/{e.new}/*@e{rid}*/")
            regions[rid] = (self.src[e.start:e.end], e.kind)
            rid += 1
            pos = e.end
        out.append(self.src[pos:self.end])
        return "".join(out), regions


REGION = re.compile(r"/\*@r(\d+)\*/(.*?)/\*@e\1\*/", re.S)


def undo_regions(text, regions):
    return REGION.sub(lambda m: regions[int(m.group(1))][0], text)


def _extract_item(it, repo, extra_sources, region_base, dropped, externals):
    path = os.path.join(repo, it["file"])
    if it["file"].startswith("@"):
        # compiler-generated source (rustc -Zunpretty=expanded), produced on every run
        path = (extra_sources or {}).get(it["file"], "")
    if not os.path.exists(path):
        raise ExtractError("missing source file " + it["file"])
    src = open(path).read()
    start = find_unique(src, it["anchor"], it["file"])
    if it.get("back"):
        m = None
        for m in re.finditer(r"\b%s\b" % re.escape(it["back"]), src[:start]):
            pass
        if m is None:
            raise ExtractError("no `%s` before anchor %r" % (it["back"], it["anchor"]))
        start = m.start()
    item = Item(src, start, f'{it["file"]}:{it["anchor"]}')
    item.strip_attrs()
    for op in it["ops"]:
        o, arg, sub, text = op["op"], op["arg"], op["sub"], op["text"]
        if o == "ret":
            item.op_ret(sub, arg.strip())
        elif o == "impl_arg":
            item.op_impl_arg(sub)
        elif o == "spec":
            item.op_spec(sub, text)
        elif o == "body_prefix":
            item.op_body_prefix(sub, text)
        elif o == "loop":
            item.op_loop(sub, int(arg), text)
        elif o == "loop_pre":
            item.op_loop_pre(sub, int(arg), text)
        elif o == "loop_body_prefix":
            item.op_loop_body_prefix(sub, int(arg), text)
        elif o == "loop_body_suffix":
            item.op_loop_body_suffix(sub, int(arg), text)
        elif o == "before":
            item.op_body_suffix_before(sub, ANCH.search(arg).group(1), text)
        elif o == "loop_iter":
            n, name = arg.split()
            item.op_loop_iter(sub, int(n), name)
        elif o == "external_body":
            item.op_external(sub, False)
            externals.append(f'{it["file"]}: {sub or it["anchor"]}')
        elif o == "external_body_drop":
            item.op_external(sub, True)
            externals.append(f'{it["file"]}: {sub or it["anchor"]}')
        elif o == "attr_before":
            item.op_attr_before(sub, arg)
        elif o == "drop":
            a = ANCH.search(arg).group(1)
            item.op_drop(a)
            dropped.append(f'{it["file"]}: {a}')
        elif o == "replace":
            ms = ANCH.findall(arg)
            item.op_replace(sub, ms[0], ms[1])
        elif o == "replace_opt":
            # a spelling the source may or may not use (e.g. an explicit turbofish that
            # must gain a `_` for the extra generic parameter of rule R2): rewritten where
            # present, nothing to do where absent
            ms = ANCH.findall(arg)
            try:
                item.op_replace(sub, ms[0], ms[1])
            except ExtractError:
                pass
        else:
            raise ExtractError("unknown op " + o)
    text, regs = item.render(region_base)
    # faithfulness self-check, per item
    back = undo_regions(text, regs)
    if rslex.token_texts(back) != [t.text for t in item.toks]:
        raise ExtractError("faithfulness self-check failed for " + item.what)
    return text, regs, item, src, start


def build_unit(template_path, repo, out_path, extra_sources=None, exclude=(), context=()):
    """Generate the Verus unit. Returns a dict describing the extraction."""
    tpl = open(template_path).read()
    # //@include <path relative to the template's directory>
    def inc(m):
        return open(os.path.join(os.path.dirname(template_path), m.group(1).strip())).read()
    for _ in range(4):
        tpl = re.sub(r"^[ \t]*//@include[ \t]+(\S+)[ \t]*$", inc, tpl, flags=re.M)
    # //@requires <item name> ... //@endrequires: template text (lemmas, trait
    # impls) that only makes sense together with an extracted item; it leaves the
    # unit with that item
    def req(m):
        return "" if m.group(1) in exclude else m.group(2)
    tpl = re.sub(r"^[ \t]*//@requires[ \t]+(\S+)[ \t]*\n(.*?)^[ \t]*//@endrequires[ \t]*\n", req, tpl,
                 flags=re.M | re.S)
    segs = parse_template(tpl)
    out = []
    regions = {}
    items = []
    line = 1
    dropped = []
    externals = []
    skipped = []
    for kind, seg in segs:
        if kind == "text":
            out.append(seg)
            line += seg.count("\n")
            continue
        it = seg
        if (it["name"] or it["anchor"]) in exclude:
            skipped.append(f'{it["name"] or it["anchor"]}: left out (Verus rejected a construct in it, or its anchor was lost / its shape changed)')
            continue
        try:
            text, regs, item, src, start = _extract_item(it, repo, extra_sources, len(regions), dropped, externals)
        except (ExtractError, ValueError, StopIteration) as ex:
            if it.get("optional"):
                skipped.append(f'{it["name"] or it["anchor"]}: {ex}')
                continue
            err = ExtractError(str(ex))
            err.item = it["name"] or it["anchor"]
            raise err
        regions.update(regs)
        nlines = text.count("\n") + 1
        items.append({"file": it["file"], "anchor": it["anchor"], "props": it["props"],
                      "name": it["name"] or it["anchor"], "first_line": line,
                      "last_line": line + nlines - 1,
                      "src_line": src.count("\n", 0, start) + 1,
                      "tokens": len(item.toks)})
        out.append(text + "\n")
        line += nlines
        continue
    full = "".join(out)
    if context:
        # definitions of the source files copied in on demand (module-level
        # constants an extracted item refers to)
        ctx = "\n// ---- context copied verbatim from the source files ----\n" + "\n".join(context) + "\n"
        k = full.rfind("} // verus!")
        full = full[:k] + ctx + full[k:] if k >= 0 else full + ctx
    with open(out_path, "w") as f:
        f.write(full)
    kinds = {}
    for rid, (orig, kind) in regions.items():
        kinds[kind] = kinds.get(kind, 0) + 1
    return {"items": items, "regions": len(regions), "edit_kinds": kinds,
            "dropped": dropped, "externals": externals, "skipped": skipped, "unit_file": out_path,
            "tokens_checked": sum(i["tokens"] for i in items)}


if __name__ == "__main__":
    import json
    info = build_unit(sys.argv[1], sys.argv[2], sys.argv[3])
    print(json.dumps(info, indent=1))
