"""Shared definitions for the /verif runner."""
import json
import os
import re
import subprocess
import fcntl
from dataclasses import dataclass, field

VERIF = os.path.dirname(os.path.dirname(os.path.abspath(__file__)))
REPO = os.environ.get("VERIF_REPO", "/repo")
WORK = os.environ.get("VERIF_WORK", "/var/tmp/epserde-verif")

ENV_OFFLINE = {
    "CARGO_NET_OFFLINE": "true",
}


@dataclass
class Obligation:
    name: str            # e.g. kani/c01_rt::rt_full_u8 or verus/V-PAD/pad_align_to
    prop: str
    backend: str         # "verus(z3)" | "kani(cbmc+cadical)"
    kind: str            # unbounded | complete | bounded
    status: str          # discharged | failed | undecided
    bound: str = ""
    vars: str = ""
    time_s: float = 0.0
    detail: list = field(default_factory=list)   # failed check descriptions
    checks: int = 0      # solver-level checks behind this obligation
    functions: list = field(default_factory=list)  # /repo functions under contract


@dataclass
class BackendResult:
    obligations: list = field(default_factory=list)
    undecided: list = field(default_factory=list)   # strings
    notes: list = field(default_factory=list)
    trusted: list = field(default_factory=list)
    checker_cmd: str = ""
    wall_s: float = 0.0
    extra: dict = field(default_factory=dict)


def load_properties():
    out = {}
    with open(os.path.join(VERIF, "properties.jsonl")) as f:
        for line in f:
            line = line.strip()
            if line:
                d = json.loads(line)
                out[d["id"]] = d
    return out


def load_plan():
    with open(os.path.join(VERIF, "MANIFEST.json")) as f:
        m = json.load(f)
    return {"claimed": {c["property_id"] for c in m.get("checks", [])}, "manifest": m}


def load_known_findings():
    p = os.path.join(VERIF, "known_findings.json")
    if not os.path.exists(p):
        return []
    with open(p) as f:
        return json.load(f).get("findings", [])


def ensure_work():
    os.makedirs(WORK, exist_ok=True)
    return WORK


class WorkLock:
    """Serialises tool invocations that share build directories."""

    def __init__(self, name):
        ensure_work()
        self.path = os.path.join(WORK, name + ".lock")
        self.fd = None

    def __enter__(self):
        self.fd = open(self.path, "w")
        fcntl.flock(self.fd, fcntl.LOCK_EX)
        return self

    def __exit__(self, *a):
        fcntl.flock(self.fd, fcntl.LOCK_UN)
        self.fd.close()


def _watchdog(proc, stop, limit_kb):
    """No swap on this image: a runaway CBMC must fail (-> UNDECIDED for its
    harness), not take the box down. RLIMIT_AS cannot be used: it also hits
    kani-driver itself (and counts address space, not memory). Kills any
    `cbmc` in the session of `proc` whose resident set exceeds the limit."""
    import time as _t
    try:
        sid = os.getsid(proc.pid)
    except Exception:
        return
    while not stop.is_set():
        try:
            out = subprocess.run(["ps", "-eo", "pid,sid,rss,comm"], stdout=subprocess.PIPE,
                                 text=True).stdout
            for line in out.splitlines()[1:]:
                f = line.split()
                if len(f) >= 4 and f[3].startswith("cbmc") and int(f[1]) == sid and int(f[2]) > limit_kb:
                    try:
                        os.kill(int(f[0]), 9)
                    except Exception:
                        pass
        except Exception:
            pass
        stop.wait(3)


def run(cmd, cwd=None, env=None, timeout=None, log=None, limit_mem=False):
    e = dict(os.environ)
    e.update(ENV_OFFLINE)
    if env:
        e.update(env)
    import threading
    try:
        proc = subprocess.Popen(cmd, cwd=cwd, env=e, stdout=subprocess.PIPE, stderr=subprocess.STDOUT,
                                text=True, errors="replace", start_new_session=limit_mem)
        stop = threading.Event()
        if limit_mem:
            lim = int(os.environ.get("VERIF_MEM_GB", "20")) * 1024 * 1024
            th = threading.Thread(target=_watchdog, args=(proc, stop, lim), daemon=True)
            th.start()
        try:
            out, _ = proc.communicate(timeout=timeout)
            rc = proc.returncode
        except subprocess.TimeoutExpired:
            try:
                os.killpg(os.getpgid(proc.pid), 9) if limit_mem else proc.kill()
            except Exception:
                proc.kill()
            out, _ = proc.communicate()
            out = (out or "") + "\n[runner] TIMEOUT after %ss\n" % timeout
            rc = 124
        finally:
            stop.set()
    except FileNotFoundError as ex:
        out, rc = str(ex), 127
    if log:
        with open(log, "w") as f:
            f.write(out)
    return rc, out


def repo_head():
    rc, out = run(["git", "-C", REPO, "rev-parse", "--short", "HEAD"])
    rc2, out2 = run(["git", "-C", REPO, "status", "--porcelain", "--untracked-files=no"])
    return out.strip() + ("+dirty" if out2.strip() else "")


TAG_RE = re.compile(r"\[(C\d\d|harness|cover)(?:/([^\]]+))?\]")
