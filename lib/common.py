"""Shared definitions for the /verif runner."""
import json
import os
import re
import subprocess
import fcntl
from dataclasses import dataclass, field

VERIF = os.path.dirname(os.path.dirname(os.path.abspath(__file__)))
REPO = os.environ.get("VERIF_REPO", "/repo")
WORK = os.environ.get("VERIF_WORK", "/var/tmp/epserde-verif")

ENV_OFFLINE = {
    "CARGO_NET_OFFLINE": "true",
}


@dataclass
class Obligation:
    name: str            # e.g. kani/c01_rt::rt_full_u8 or verus/V-PAD/pad_align_to
    prop: str
    backend: str         # "verus(z3)" | "kani(cbmc+cadical)"
    kind: str            # unbounded | complete | bounded
    status: str          # discharged | failed | undecided
    bound: str = ""
    vars: str = ""
    time_s: float = 0.0
    detail: list = field(default_factory=list)   # failed check descriptions
    checks: int = 0      # solver-level checks behind this obligation
    functions: list = field(default_factory=list)  # /repo functions under contract


@dataclass
class BackendResult:
    obligations: list = field(default_factory=list)
    undecided: list = field(default_factory=list)   # strings
    notes: list = field(default_factory=list)
    trusted: list = field(default_factory=list)
    checker_cmd: str = ""
    wall_s: float = 0.0
    extra: dict = field(default_factory=dict)


def load_properties():
    out = {}
    with open(os.path.join(VERIF, "properties.jsonl")) as f:
        for line in f:
            line = line.strip()
            if line:
                d = json.loads(line)
                out[d["id"]] = d
    return out


def load_plan():
    with open(os.path.join(VERIF, "MANIFEST.json")) as f:
        m = json.load(f)
    return {"claimed": {c["property_id"] for c in m.get("checks", [])}, "manifest": m}


def load_known_findings():
    p = os.path.join(VERIF, "known_findings.json")
    if not os.path.exists(p):
        return []
    with open(p) as f:
        return json.load(f).get("findings", [])


def ensure_work():
    os.makedirs(WORK, exist_ok=True)
    return WORK


class WorkLock:
    """Serialises tool invocations that share build directories."""

    def __init__(self, name):
        ensure_work()
        self.path = os.path.join(WORK, name + ".lock")
        self.fd = None

    def __enter__(self):
        self.fd = open(self.path, "w")
        fcntl.flock(self.fd, fcntl.LOCK_EX)
        return self

    def __exit__(self, *a):
        fcntl.flock(self.fd, fcntl.LOCK_UN)
        self.fd.close()


def _limit_memory():
    # no swap on this image: a runaway CBMC must fail (-> UNDECIDED), not take the box down
    import resource
    lim = int(os.environ.get("VERIF_MEM_GB", "24")) * 1024 ** 3
    try:
        resource.setrlimit(resource.RLIMIT_AS, (lim, lim))
    except Exception:
        pass


def run(cmd, cwd=None, env=None, timeout=None, log=None, limit_mem=False):
    e = dict(os.environ)
    e.update(ENV_OFFLINE)
    if env:
        e.update(env)
    try:
        p = subprocess.run(cmd, cwd=cwd, env=e, timeout=timeout,
                           stdout=subprocess.PIPE, stderr=subprocess.STDOUT, text=True,
                           errors="replace", preexec_fn=_limit_memory if limit_mem else None)
        out, rc = p.stdout, p.returncode
    except subprocess.TimeoutExpired as ex:
        out = (ex.stdout or b"").decode("utf8", "replace") if isinstance(ex.stdout, bytes) else (ex.stdout or "")
        out += "\n[runner] TIMEOUT after %ss\n" % timeout
        rc = 124
    if log:
        with open(log, "w") as f:
            f.write(out)
    return rc, out


def repo_head():
    rc, out = run(["git", "-C", REPO, "rev-parse", "--short", "HEAD"])
    rc2, out2 = run(["git", "-C", REPO, "status", "--porcelain", "--untracked-files=no"])
    return out.strip() + ("+dirty" if out2.strip() else "")


TAG_RE = re.compile(r"\[(C\d\d|harness|cover)(?:/([^\]]+))?\]")
