"""Verus back end: units extracted from /repo on every run."""
import json
import os
import re
import sys
import time

import common
from common import Obligation, BackendResult, VERIF, WORK, REPO

sys.path.insert(0, os.path.join(VERIF, "extract"))
import extractor  # noqa: E402
import rslex  # noqa: E402

# unit -> properties served, tier, paired Kani harness for counterexamples
UNITS_FILE = os.path.join(VERIF, "contracts", "units.json")


def load_units():
    with open(UNITS_FILE) as f:
        return json.load(f)


def verus_run(unit_rs, log, extra_args=()):
    cmd = ["verus", unit_rs, "--output-json", "--time", "--num-threads", "8"] + list(extra_args)
    t0 = time.time()
    e = dict(os.environ)
    import subprocess
    p = subprocess.run(cmd, cwd=os.path.dirname(unit_rs), env=e, stdout=subprocess.PIPE,
                       stderr=subprocess.PIPE, text=True, errors="replace", timeout=1800)
    with open(log, "w") as f:
        f.write("$ " + " ".join(cmd) + "\n--- stdout ---\n" + p.stdout + "\n--- stderr ---\n" + p.stderr)
    return p.returncode, p.stdout, p.stderr, time.time() - t0, " ".join(cmd)


def parse_errors(stderr):
    """-> list of (message, [line numbers mentioned in the diagnostic], text)"""
    out = []
    blocks = re.split(r"\n(?=error|note: |warning)", "\n" + stderr)
    for b in blocks:
        b = b.strip("\n")
        m = re.match(r"error(?:\[E\d+\])?: (.*)", b)
        if not m:
            continue
        msg = m.group(1).strip()
        if msg.startswith("aborting due to"):
            continue
        lines = [int(x) for x in re.findall(r"^\s*(\d+) [|/]", b, re.M)]
        first = re.search(r"--> [^:\n]+:(\d+):\d+", b)
        if first:
            lines.insert(0, int(first.group(1)))
        out.append((msg, lines, b))
    return out


TOOL_LIMIT = re.compile(r"rlimit|Resource limit|not supported|unsupported|does not yet support|"
                        r"internal error|panicked|cyclic self-reference|ill-typed", re.I)


def list_fns(unit_text, items):
    """Obligations of a unit = exec and proof functions with a body that Verus
    checks (spec functions are definitions; external_body functions are
    assumptions). -> list of dict(name, first, last, props, external)"""
    # spliced specification text (edit regions) may contain braces before a
    # declaration's `;`: blank it out, keeping line numbers
    def blank(m):
        c = m.group(2)
        if re.search(r"requires|ensures|invariant|decreases|spec fn|proof \{", c):
            return m.group(1) + re.sub(r"[^\n]", " ", c) + m.group(3)
        return m.group(0)
    unit_text = re.sub(r"(/\*@r(?:\d+)\*/)(.*?)(/\*@e\d+\*/)", blank, unit_text, flags=re.S)
    toks = rslex.lex(unit_text)
    # line number of each offset
    nl = [0]
    for i, ch in enumerate(unit_text):
        if ch == "\n":
            nl.append(i + 1)
    import bisect

    def line_of(off):
        return bisect.bisect_right(nl, off)
    out = []
    for k, t in enumerate(toks):
        if not (t.kind == "ident" and t.text == "fn"):
            continue
        if k + 1 >= len(toks) or toks[k + 1].kind != "ident":
            continue
        name = toks[k + 1].text
        if name == "main":
            continue
        prev = [x.text for x in toks[max(0, k - 8):k]]
        if "spec" in prev[-3:]:
            continue
        if k >= 1 and toks[k - 1].text in ("spec_fn",):
            continue
        external = "external_body" in prev
        depth = 0
        body = None
        for j in range(k + 2, len(toks)):
            tt = toks[j]
            if tt.kind == "punct":
                if tt.text in "([":
                    depth += 1
                elif tt.text in ")]":
                    depth -= 1
                elif depth == 0 and tt.text in "{;":
                    body = j
                    break
        if body is None or toks[body].text == ";":
            continue
        end = rslex.match_close(toks, body)
        first, last = line_of(t.start), line_of(toks[end].start)
        item = None
        for it in items:
            if it["first_line"] <= first <= it["last_line"]:
                item = it
        if item is not None:
            nm = item["name"] if item["name"].split("::")[-1] == name else item["name"] + "::" + name
            props = item["props"]
            src = f'{item["file"]}:{item["name"]}'
        else:
            nm, props, src = name, None, None
        out.append({"name": nm, "first": first, "last": last, "props": props,
                    "external": external, "src": src, "fn": name})
    return out


def run(prop, tier, only_units=None):
    res = BackendResult()
    t0 = time.time()
    units = load_units()
    sel = []
    for name, u in units.items():
        if only_units:
            if name in only_units:
                sel.append((name, u))
            continue
        if prop in u["props"] and (u.get("tier", "quick") == "quick" or tier == "thorough"):
            sel.append((name, u))
    if not sel:
        return res
    work = os.path.join(common.ensure_work(), "verus")
    os.makedirs(work, exist_ok=True)
    cmds = []
    res.extra["dropped"] = []
    res.extra["extraction"] = {}
    res.extra["diag"] = {}
    for name, u in sel:
        tpl = os.path.join(VERIF, "contracts", name + ".rs.tpl")
        unit_rs = os.path.join(work, f"{name}.rs")
        try:
            info = extractor.build_unit(tpl, REPO, unit_rs)
        except extractor.ExtractError as ex:
            res.undecided.append(f"verus/{name}: extraction failed: {ex}")
            continue
        res.extra["dropped"] += info["dropped"]
        res.extra["extraction"][name] = {
            "items": [f'{i["file"]}:{i["src_line"]} {i["name"]}' for i in info["items"]],
            "edit_regions": info["regions"], "edit_kinds": info["edit_kinds"],
            "tokens_checked_equal_to_source": info["tokens_checked"]}
        log = os.path.join(WORK, f"verus-{name}.log")
        with common.WorkLock("verus-" + name):
            try:
                rc, out, err, wall, cmd = verus_run(unit_rs, log)
            except Exception as ex:
                res.undecided.append(f"verus/{name}: verus did not finish: {ex}")
                continue
        cmds.append(cmd)
        try:
            j = json.loads(out[out.index("{"):])
        except Exception:
            res.undecided.append(f"verus/{name}: no JSON result (tool error); see {log}")
            continue
        vres = j.get("verification-results", {})
        verified, errors = vres.get("verified", 0), vres.get("errors", 0)
        smt_ms = j.get("times-ms", {}).get("smt", {}).get("total", 0)
        unit_text = open(unit_rs).read()
        errs = parse_errors(err)
        if vres.get("encountered-vir-error") or (not vres.get("success") and not errs and errors == 0):
            first = err.strip().split("\n")[:3]
            res.undecided.append(f"verus/{name}: unit rejected before verification (tool limit or "
                                 f"unsupported construct): {' | '.join(first)[:300]}")
            continue
        if verified + errors == 0:
            res.undecided.append(f"verus/{name}: zero obligations (vacuous unit)")
            continue
        res.extra["diag"][name] = err
        fns = [f for f in list_fns(unit_text, info["items"]) if not f["external"]]
        failed_by, tool_by = {}, {}
        ulines = unit_text.splitlines()
        for msg, lines, block in errs:
            hit = None
            score = {}
            for ln in lines:
                cands = [f for f in fns if f["first"] <= ln <= f["last"]]
                if cands:
                    f = min(cands, key=lambda f: f["last"] - f["first"])
                    score[f["name"]] = score.get(f["name"], 0) + 1
            if score:
                hit = max(score.items(), key=lambda kv: kv[1])[0]
            where = ""
            if lines:
                where = f" (unit line {lines[0]}: {ulines[lines[0]-1].strip()[:110]})"
            entry = msg + where
            tgt = tool_by if TOOL_LIMIT.search(msg) else failed_by
            tgt.setdefault(hit or "?", []).append(entry)
        mine = []
        for f in fns:
            # an item tagged with properties serves only those; lemmas serve the whole unit
            if f["props"] is not None and prop not in f["props"]:
                continue
            fails = failed_by.get(f["name"], [])
            tools = tool_by.get(f["name"], [])
            status = "failed" if fails else ("undecided" if tools else "discharged")
            ob = Obligation(name=f"verus/{name}/{f['name']}", prop=prop,
                            backend="verus 0.2026.09.13 (z3)", kind="unbounded", status=status,
                            vars=u.get("vars", "all inputs, all iterations, all type parameters"),
                            detail=fails or tools,
                            functions=[f["src"]] if f["src"] else [])
            res.obligations.append(ob)
            mine.append(ob)
            if status == "undecided":
                res.undecided.append(f"{ob.name}: {tools[0][:200]}")
        for key, fails in list(failed_by.items()) + list(tool_by.items()):
            if key == "?":
                res.undecided.append(f"verus/{name}: diagnostic outside any checked function: {fails[0][:200]}")
        for o in mine:
            o.time_s = smt_ms / 1000.0 / max(1, len(fns))
        if mine:
            mine[0].checks = verified + errors
        res.trusted += scan_trusted(name, unit_text, info)
        if tier == "thorough" and not failed_by and not tool_by:
            run_canaries(name, unit_rs, info, prop, res)
    res.checker_cmd = " ; ".join(cmds)
    res.wall_s = time.time() - t0
    return res


def run_canaries(name, unit_rs, info, prop, res):
    """Seeded mutations of the extracted text: each must fail its obligation."""
    path = os.path.join(VERIF, "contracts", "canaries.json")
    if not os.path.exists(path):
        return
    cans = json.load(open(path)).get(name, [])
    text = open(unit_rs).read()
    plain = re.sub(r"/\*@[re]\d+\*/", "", text)
    killed, total = 0, 0
    for i, c in enumerate(cans):
        if not c.get("fails"):
            continue
        total += 1
        use = text if text.count(c["find"]) == 1 else plain
        if use.count(c["find"]) != 1:
            res.undecided.append(f"verus/{name}: canary {i} ({c['what']}): anchor not found exactly once "
                                 f"in the extracted text")
            continue
        mutated = use.replace(c["find"], c["replace"])
        mpath = unit_rs[:-3] + f"_canary{i}.rs"
        open(mpath, "w").write(mutated)
        try:
            rc, out, err, wall, cmd = verus_run(mpath, mpath + ".log")
        except Exception as ex:
            res.undecided.append(f"verus/{name}: canary {i}: verus did not finish: {ex}")
            continue
        items = []   # line numbers shift-free: the region markers were comments on the same lines
        fns = [f for f in list_fns(mutated, info["items"])]
        bad = set()
        for msg, lines, block in parse_errors(err):
            for ln in lines:
                for f in fns:
                    if f["first"] <= ln <= f["last"]:
                        bad.add(f["name"])
        if any(b.endswith(c["fails"]) for b in bad):
            killed += 1
        else:
            res.undecided.append(f"verus/{name}: canary {i} ({c['what']}) still verifies: the contract of "
                                 f"{c['fails']} is too weak")
        os.remove(mpath)
    res.extra.setdefault("canaries", {})[name] = {"seeded": total, "killed": killed}
    res.notes.append(f"verus/{name}: {killed}/{total} seeded-mutation canaries fail their obligation")


def scan_trusted(name, text, info):
    out = []
    for m in re.finditer(r"assume_specification\s*(?:<[^>]*>)?\s*\[\s*([^\]]+?)\s*\]", text):
        out.append(f"{name}: assumed std specification: {m.group(1)}")
    for e in info["externals"]:
        out.append(f"{name}: external_body (assumed contract, body not verified by Verus): {e}")
    for m in re.finditer(r"#\[verifier::external_body\]\s*(?:pub\s+)?(?:proof\s+|spec\s+)?fn\s+(\w+)", text):
        if not any(m.group(1) in e for e in info["externals"]):
            out.append(f"{name}: axiom / external_body in specification text: {m.group(1)}")
    for m in re.finditer(r"\b(assume|admit)\s*\(", text):
        out.append(f"{name}: `{m.group(1)}` statement present in unit (unchecked assumption)")
    for m in re.finditer(r"external_trait_specification|external_type_specification", text):
        out.append(f"{name}: {m.group(0)} (trusted signature of an external item)")
    for d in info["dropped"]:
        out.append(f"{name}: dropped item (R4): {d}")
    out.append("Verus 0.2026.09.13 / z3; rustc type checking of the extracted unit")
    return sorted(set(out))


def diagnostic_for(vr, ob):
    if vr is None:
        return ""
    unit = ob.name.split("/")[1]
    return vr.extra.get("diag", {}).get(unit, "")


def paired_harness(ob):
    units = load_units()
    unit = ob.name.split("/")[1]
    fn = ob.name.split("/")[-1].split("::")[-1]
    pairs = units.get(unit, {}).get("paired", {})
    return pairs.get(fn) or pairs.get("*")
