"""Verus back end (stub until units are added)."""
from common import BackendResult


def run(prop, tier, only_units=None):
    return BackendResult()


def diagnostic_for(vr, ob):
    return ""


def paired_harness(ob):
    return None
