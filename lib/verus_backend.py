"""Verus back end: units extracted from /repo on every run."""
import json
import os
import re
import sys
import time

import common
from common import Obligation, BackendResult, VERIF, WORK, REPO

sys.path.insert(0, os.path.join(VERIF, "extract"))
import extractor  # noqa: E402

# unit -> properties served, tier, paired Kani harness for counterexamples
UNITS_FILE = os.path.join(VERIF, "contracts", "units.json")


def load_units():
    with open(UNITS_FILE) as f:
        return json.load(f)


def verus_run(unit_rs, log, extra_args=()):
    cmd = ["verus", unit_rs, "--output-json", "--time", "--num-threads", "8"] + list(extra_args)
    t0 = time.time()
    e = dict(os.environ)
    import subprocess
    p = subprocess.run(cmd, cwd=os.path.dirname(unit_rs), env=e, stdout=subprocess.PIPE,
                       stderr=subprocess.PIPE, text=True, errors="replace", timeout=1800)
    with open(log, "w") as f:
        f.write("$ " + " ".join(cmd) + "\n--- stdout ---\n" + p.stdout + "\n--- stderr ---\n" + p.stderr)
    return p.returncode, p.stdout, p.stderr, time.time() - t0, " ".join(cmd)


ERR_RE = re.compile(r"^(error(?:\[E\d+\])?): (.*?)\n\s*--> [^:\n]+:(\d+):(\d+)", re.M)


def parse_errors(stderr):
    """-> list of (message, line)"""
    out = []
    for m in ERR_RE.finditer(stderr):
        out.append((m.group(2).strip(), int(m.group(3))))
    return out


TOOL_LIMIT = re.compile(r"rlimit|Resource limit|not supported|unsupported|The verifier does not yet support|"
                        r"internal error|panicked|cyclic self-reference|ill-typed", re.I)


def fn_line_map(unit_text):
    """line -> enclosing fn/proof fn name (innermost item starting before the line)"""
    names = []
    for i, l in enumerate(unit_text.split("\n"), 1):
        m = re.match(r"\s*(?:pub(?:\([a-z]+\))?\s+)?(?:open\s+|closed\s+)?(?:broadcast\s+)?(?:proof\s+|spec\s+|exec\s+)?fn\s+(\w+)", l)
        if m:
            names.append((i, m.group(1)))
    return names


def enclosing(names, line):
    cur = None
    for i, n in names:
        if i <= line:
            cur = n
        else:
            break
    return cur


def run(prop, tier, only_units=None):
    res = BackendResult()
    t0 = time.time()
    units = load_units()
    sel = []
    for name, u in units.items():
        if only_units:
            if name in only_units:
                sel.append((name, u))
            continue
        if prop in u["props"] and (u.get("tier", "quick") == "quick" or tier == "thorough"):
            sel.append((name, u))
    if not sel:
        return res
    work = os.path.join(common.ensure_work(), "verus")
    os.makedirs(work, exist_ok=True)
    cmds = []
    res.extra["dropped"] = []
    res.extra["extraction"] = {}
    res.extra["diag"] = {}
    for name, u in sel:
        tpl = os.path.join(VERIF, "contracts", name + ".rs.tpl")
        unit_rs = os.path.join(work, f"{name}.rs")
        try:
            info = extractor.build_unit(tpl, REPO, unit_rs)
        except extractor.ExtractError as ex:
            res.undecided.append(f"verus/{name}: extraction failed: {ex}")
            continue
        res.extra["dropped"] += info["dropped"]
        res.extra["extraction"][name] = {
            "items": [f'{i["file"]}:{i["src_line"]} {i["name"]}' for i in info["items"]],
            "edit_regions": info["regions"], "edit_kinds": info["edit_kinds"],
            "tokens_checked_equal_to_source": info["tokens_checked"]}
        log = os.path.join(WORK, f"verus-{name}.log")
        with common.WorkLock("verus-" + name):
            try:
                rc, out, err, wall, cmd = verus_run(unit_rs, log)
            except Exception as ex:
                res.undecided.append(f"verus/{name}: verus did not finish: {ex}")
                continue
        cmds.append(cmd)
        try:
            j = json.loads(out[out.index("{"):])
        except Exception:
            res.undecided.append(f"verus/{name}: no JSON result (tool error); see {log}")
            continue
        vres = j.get("verification-results", {})
        verified, errors = vres.get("verified", 0), vres.get("errors", 0)
        smt_ms = j.get("times-ms", {}).get("smt", {}).get("total", 0)
        unit_text = open(unit_rs).read()
        names = fn_line_map(unit_text)
        errs = parse_errors(err)
        if vres.get("encountered-vir-error") or (not vres.get("success") and not errs and errors == 0):
            first = err.strip().split("\n")[:3]
            res.undecided.append(f"verus/{name}: unit rejected before verification (tool limit or "
                                 f"unsupported construct): {' | '.join(first)[:300]}")
            continue
        # obligations = functions of this unit that Verus checked
        funcs = [k.split("::", 1)[1] for k in j.get("func-details", {}).keys()
                 if not k.startswith("vstd::") and "::" in k]
        # spec functions and assumed specifications are definitions, not obligations
        spec_fns = set(re.findall(r"\bspec\s+fn\s+(\w+)", unit_text))
        checked_fns = set(re.findall(r"(?<!spec )\bfn\s+(\w+)", unit_text)) - spec_fns
        funcs = [f for f in funcs if f.split("::")[-1] in checked_fns]
        ext_fns = set(re.findall(r"#\[verifier::external_body\]\s*(?:/\*@e\d+\*/)?\s*(?:pub\s+)?(?:proof\s+)?fn\s+(\w+)", unit_text))
        funcs = [f for f in funcs if f.split("::")[-1] not in ext_fns or True]
        item_of_line = info["items"]
        failed_by_fn = {}
        tool_by_fn = {}
        for msg, line in errs:
            fn = enclosing(names, line) or "?"
            src = ""
            for it in item_of_line:
                if it["first_line"] <= line <= it["last_line"]:
                    src = f' [from {it["file"]}:{it["src_line"]}]'
            entry = f"{msg} (unit line {line}: {unit_text.splitlines()[line-1].strip()[:120]}){src}"
            if TOOL_LIMIT.search(msg):
                tool_by_fn.setdefault(fn, []).append(entry)
            else:
                failed_by_fn.setdefault(fn, []).append(entry)
        res.extra["diag"][name] = err
        item_fns = {}
        for it in info["items"]:
            item_fns[it["name"]] = it
        if verified + errors == 0:
            res.undecided.append(f"verus/{name}: zero obligations (vacuous unit)")
            continue
        seen = set()
        for fn in funcs:
            short = fn.split("::")[-1]
            key = fn
            if key in seen:
                continue
            seen.add(key)
            # attribute by last path segment
            fails = failed_by_fn.get(short, [])
            tools = tool_by_fn.get(short, [])
            status = "discharged"
            if fails:
                status = "failed"
            elif tools:
                status = "undecided"
            ob = Obligation(name=f"verus/{name}/{fn}", prop=prop,
                            backend="verus 0.2026.09.13 (z3)", kind="unbounded",
                            status=status, vars=u.get("vars", "all inputs, all iterations, all type parameters"),
                            time_s=0.0, detail=fails or tools,
                            functions=[f'{it["file"]}:{it["name"]}' for it in info["items"]
                                       if it["name"].split("::")[-1] == short or short in it["name"]])
            res.obligations.append(ob)
            if status == "undecided":
                res.undecided.append(f"{ob.name}: {tools[0][:200]}")
        # errors that could not be attributed to a listed function
        known = {f.split("::")[-1] for f in funcs}
        for fn, fails in list(failed_by_fn.items()) + list(tool_by_fn.items()):
            if fn not in known:
                res.undecided.append(f"verus/{name}: error outside any checked function ({fn}): {fails[0][:200]}")
        if res.obligations:
            # spread the unit's SMT time over its obligations for the evidence
            mine = [o for o in res.obligations if o.name.startswith(f"verus/{name}/")]
            for o in mine:
                o.time_s = smt_ms / 1000.0 / max(1, len(mine))
                o.checks = 0
            if mine:
                mine[0].checks = verified + errors
        res.trusted += scan_trusted(name, unit_text, info)
    res.checker_cmd = " ; ".join(cmds)
    res.wall_s = time.time() - t0
    return res


def scan_trusted(name, text, info):
    out = []
    for m in re.finditer(r"assume_specification\s*(?:<[^>]*>)?\s*\[\s*([^\]]+?)\s*\]", text):
        out.append(f"{name}: assumed std specification: {m.group(1)}")
    for e in info["externals"]:
        out.append(f"{name}: external_body (assumed contract, body not verified by Verus): {e}")
    for m in re.finditer(r"#\[verifier::external_body\]\s*(?:pub\s+)?(?:proof\s+|spec\s+)?fn\s+(\w+)", text):
        if not any(m.group(1) in e for e in info["externals"]):
            out.append(f"{name}: axiom / external_body in specification text: {m.group(1)}")
    for m in re.finditer(r"\b(assume|admit)\s*\(", text):
        out.append(f"{name}: `{m.group(1)}` statement present in unit (unchecked assumption)")
    for m in re.finditer(r"external_trait_specification|external_type_specification", text):
        out.append(f"{name}: {m.group(0)} (trusted signature of an external item)")
    for d in info["dropped"]:
        out.append(f"{name}: dropped item (R4): {d}")
    out.append("Verus 0.2026.09.13 / z3; rustc type checking of the extracted unit")
    return sorted(set(out))


def diagnostic_for(vr, ob):
    if vr is None:
        return ""
    unit = ob.name.split("/")[1]
    return vr.extra.get("diag", {}).get(unit, "")


def paired_harness(ob):
    units = load_units()
    unit = ob.name.split("/")[1]
    fn = ob.name.split("/")[-1].split("::")[-1]
    pairs = units.get(unit, {}).get("paired", {})
    return pairs.get(fn) or pairs.get("*")
