"""Outcome handling: known findings, replay files, evidence, exit code."""
import json
import os
import re
import time

import common
from common import VERIF, WORK


def match_known(findings, prop, ob, line):
    """A known finding suppresses exactly one (property, obligation, failing
    check) combination; anything else of the same property is a violation."""
    for f in findings:
        if f.get("status") != "known" or f.get("property") != prop:
            continue
        if f.get("obligation") != ob.name:
            continue
        if f.get("match") and f["match"] not in line:
            continue
        return f
    return None


def write_replay(prop, ob, extra_text, reproduced):
    os.makedirs(os.path.join(VERIF, "replays"), exist_ok=True)
    safe = re.sub(r"[^A-Za-z0-9_.-]+", "_", ob.name)
    path = os.path.join(VERIF, "replays", f"{prop}-{safe}.txt")
    with open(path, "w") as f:
        f.write(f"property: {prop}\n")
        f.write(f"obligation: {ob.name}\n")
        f.write(f"backend: {ob.backend}\n")
        f.write(f"kind: {ob.kind} {ob.bound}\n")
        f.write(f"quantified variables: {ob.vars}\n")
        f.write(f"repo: {common.repo_head()}\n")
        f.write("reproduced natively against the real crate: %s\n" % ("yes" if reproduced else "no"))
        f.write("failed checks:\n")
        for d in ob.detail:
            f.write("  " + d + "\n")
        f.write("\n---- verifier output / counterexample ----\n")
        f.write(extra_text or "(none)")
        f.write("\n")
    return path


def finish(prop, tier, seed, obligations, undecided, notes, vr, kr, wall, write_evidence=True):
    import kani_backend
    import verus_backend
    findings = common.load_known_findings()
    violations = []
    known_lines = []
    kani_meta = None
    # A Verus failure comes without a counterexample: it cannot tell a broken
    # function from a lost proof hint. Where a *complete* Kani lemma states the
    # same contract for all inputs and is discharged in this very run, the
    # function still satisfies the contract: the failure is proof brittleness
    # (UNDECIDED), not a violation.
    units = verus_backend.load_units()
    ok_kani = {o.name.split("::")[-1] for o in obligations
               if o.backend.startswith("kani") and o.status == "discharged" and o.kind == "complete"}
    bad_kani = {o.name.split("::")[-1] for o in obligations
                if o.backend.startswith("kani") and o.status != "discharged"}
    for ob in obligations:
        if ob.status == "failed" and ob.backend.startswith("verus"):
            unit = ob.name.split("/")[1]
            item_fn = ob.name.split("/", 2)[2]
            fn = item_fn.split("::")[-1]
            pc = units.get(unit, {}).get("paired_complete", {})
            hs = pc.get(item_fn) or pc.get(fn)
            if not hs:
                continue
            hs = [hs] if isinstance(hs, str) else list(hs)
            if any(h in bad_kani for h in hs):
                continue
            missing = [h for h in hs if h not in ok_kani]
            if missing:
                # lemmas of the same contract that are not part of this property's
                # selection: run them now
                try:
                    extra = kani_backend.run_named(missing)
                except Exception:
                    extra = {}
                if not all(extra.get(h) for h in missing):
                    continue
            ob.status = "undecided"
            undecided.append(f"{ob.name}: Verus proof not found, but the complete Kani lemma(s) {', '.join(hs)} of the "
                             f"same contract hold on this tree: lost proof, not a violation ({ob.detail[0][:120]})")
    # Kani failures first: they come with replayable counterexamples
    for ob in sorted(obligations, key=lambda o: 0 if o.backend.startswith("kani") else 1):
        if ob.status != "failed":
            continue
        remaining = []
        for line in ob.detail:
            f = match_known(findings, prop, ob, line)
            if f:
                known_lines.append(f"KNOWN-FINDING: property={prop} {f.get('what', ob.name)} "
                                   f"[{ob.name}: {line[:160]}]")
            else:
                remaining.append(line)
        if not remaining:
            ob.status = "known-finding"
            continue
        ob.detail = remaining
        # counterexample
        text, reproduced = "", False
        if ob.backend.startswith("rustc"):
            text = (kr.extra.get("replay_text", "") if kr else "")
        elif ob.backend.startswith("kani") and len(violations) < 2:
            if kani_meta is None:
                kani_meta = kani_backend.load_meta()
            m = kani_meta.get(ob.name.split("::")[-1])
            if m is not None:
                try:
                    # the replay is best effort and time-boxed: the first counterexample gets
                    # 15 minutes, a second one 5
                    text, reproduced = kani_backend.playback(m, prop, 900 if not violations else 300)
                except Exception as ex:  # replay is best effort
                    text = f"[replay] playback failed: {ex}"
        elif ob.backend.startswith("verus"):
            text = verus_backend.diagnostic_for(vr, ob)
            paired = verus_backend.paired_harness(ob)
            if paired and len(violations) < 2:
                if kani_meta is None:
                    kani_meta = kani_backend.load_meta()
                m = kani_meta.get(paired)
                if m is not None:
                    try:
                        t2, reproduced = kani_backend.playback(m, prop, 900 if not violations else 300)
                        text += "\n---- paired Kani harness %s ----\n%s" % (paired, t2)
                    except Exception as ex:
                        text += f"\n[replay] playback failed: {ex}"
        path = write_replay(prop, ob, text, reproduced)
        violations.append((ob, path, reproduced))

    for l in known_lines:
        print(l)
    for ob, path, reproduced in violations:
        suffix = "" if reproduced else " no-failing-input-found"
        print(f"VIOLATION property={prop} replay={path} obligation={ob.name}{suffix}")
        for d in ob.detail[:2]:
            print("    " + d[:200])
    for u in undecided:
        print(f"UNDECIDED property={prop} reason={u}")
    for n in notes:
        print("note: " + n)

    n_total = len(obligations)
    proved = [o for o in obligations if o.status == "discharged" and o.kind in ("unbounded", "complete")]
    bounded = [o for o in obligations if o.status == "discharged" and o.kind == "bounded"]
    print(f"{prop} [{tier}] obligations={n_total} discharged(unbounded+complete)={len(proved)} "
          f"bounded-stand-ins={len(bounded)} violations={len(violations)} "
          f"known-findings={len(known_lines)} undecided={len(undecided)} wall={wall:.0f}s")

    if write_evidence:
        write_evidence_file(prop, tier, seed, obligations, undecided, violations, known_lines,
                            vr, kr, wall)

    if violations:
        return 1
    if undecided or n_total == 0:
        if n_total == 0:
            print(f"UNDECIDED property={prop} reason=no obligations generated (vacuous run)")
        return 2
    return 0


def write_evidence_file(prop, tier, seed, obligations, undecided, violations, known_lines, vr, kr, wall):
    # "proof" counts: unbounded (Verus) and complete-finite (Kani) obligations only.
    counted = [o for o in obligations if o.kind in ("unbounded", "complete")]
    discharged = [o for o in counted if o.status == "discharged"]
    bounded = [o for o in obligations if o.kind == "bounded"]
    trusted = []
    cmds = []
    fns = set()
    for br in (vr, kr):
        if br is None:
            continue
        trusted += br.trusted
        if br.checker_cmd:
            cmds.append(br.checker_cmd)
    for o in obligations:
        fns.update(o.functions)
    samples = []
    for o in obligations[:60]:
        samples.append({"obligation": o.name, "back_end": o.backend, "kind": o.kind,
                        "bound": o.bound, "quantified": o.vars, "status": o.status,
                        "solver_time_s": round(o.time_s, 2), "solver_checks": o.checks})
    ev = {
        "property_id": prop,
        "tier": tier,
        "seed": seed,
        "level": "proof",
        "coverage": {
            "obligations": len(counted),
            "discharged": len(discharged),
            "checker_cmd": " ;; ".join(cmds) if cmds else "(none)",
            "trusted_base": sorted(set(trusted)),
            "exhaustive": False,
            "explanation": "obligations/discharged count only unbounded Verus obligations and "
                           "complete Kani lemmas (loop-free or type-constant-bounded loops over "
                           "full-domain inputs for the stated instantiation); bounded stand-ins are "
                           "listed under bounded_checks and never counted as proved",
            "bounded_checks": [{"obligation": o.name, "bound": o.bound, "status": o.status,
                                "quantified": o.vars, "solver_time_s": round(o.time_s, 2)}
                               for o in bounded],
            "functions_under_contract": sorted(fns),
            "solver_time_s": round(sum(o.time_s for o in obligations), 1),
            "solver_checks": sum(o.checks for o in obligations),
            "undecided": undecided,
            "known_findings": known_lines,
            "dropped_items": (vr.extra.get("dropped", []) if vr else []),
            "extraction": (vr.extra.get("extraction", {}) if vr else {}),
            "repo_head": common.repo_head(),
            "samples": samples,
        },
        "assumptions": sorted(set(trusted)),
        "wall_s": round(wall, 1),
        "violations": len(violations),
    }
    os.makedirs(os.path.join(VERIF, "evidence"), exist_ok=True)
    with open(os.path.join(VERIF, "evidence", f"{prop}.json"), "w") as f:
        json.dump(ev, f, indent=1)


def replay(path, args):
    """Re-run the obligation named in a replay file."""
    import kani_backend
    import verus_backend
    txt = open(path).read()
    mp = re.search(r"^property: (\S+)", txt, re.M)
    mo = re.search(r"^obligation: (\S+)", txt, re.M)
    if not (mp and mo):
        print("not a replay file")
        return 2
    prop, ob = mp.group(1), mo.group(1)
    print(f"replaying {ob} for {prop}")
    if ob.startswith("kani/"):
        name = ob.split("::")[-1]
        kr = kani_backend.run(prop, "thorough", jobs=2, only=[name])
        for o in kr.obligations:
            print(o.name, o.status)
            for d in o.detail:
                print("   ", d)
        return 1 if any(o.status == "failed" for o in kr.obligations) else 0
    if ob.startswith("verus/"):
        unit = ob.split("/")[1]
        vr = verus_backend.run(prop, "thorough", only_units=[unit])
        bad = [o for o in vr.obligations if o.status == "failed"]
        for o in bad:
            print(o.name, o.status)
            for d in o.detail:
                print("   ", d)
        return 1 if bad else 0
    return 2
