"""Kani/CBMC back end: lemma harnesses over the unmodified crate."""
import glob
import json
import os
import re
import shlex
import shutil
import time

import common
from common import Obligation, BackendResult, VERIF, WORK, REPO

HARNESS_SRC = os.path.join(VERIF, "kani-harness")
META_RE = re.compile(r"^\s*// @h (\w+)\s+(.*)$")
KV_RE = re.compile(r'(\w+)=("([^"]*)"|\S+)')

KANI_FLAGS = ["-Z", "function-contracts", "-Z", "stubbing", "-Z", "unstable-options"]


def load_meta():
    """Every harness is declared by a `// @h name key=value...` line."""
    metas = {}
    for path in sorted(glob.glob(os.path.join(HARNESS_SRC, "src", "*.rs"))):
        mod = os.path.basename(path)[:-3]
        with open(path) as f:
            for line in f:
                m = META_RE.match(line)
                if not m:
                    continue
                name, rest = m.group(1), m.group(2)
                kv = {}
                for k in KV_RE.finditer(rest):
                    kv[k.group(1)] = k.group(3) if k.group(3) is not None else k.group(2)
                kv["name"] = name
                kv["module"] = mod
                kv["full"] = f"{mod}::{name}"
                kv["props"] = kv.get("props", "").split(",")
                kv.setdefault("tier", "quick")
                kv.setdefault("kind", "bounded")
                kv.setdefault("bound", "")
                kv.setdefault("vars", "")
                kv.setdefault("allow", "")
                kv.setdefault("expect", "pass")   # pass | fail (must-fail canary)
                kv.setdefault("fns", "")
                metas[name] = kv
    return metas


def select(metas, prop, tier, only=None):
    out = []
    for m in metas.values():
        if only:
            if m["name"] in only:
                out.append(m)
            continue
        if prop not in m["props"]:
            continue
        if m["tier"] == "thorough" and tier != "thorough":
            continue
        out.append(m)
    return out


def sync_crate():
    """Copy the harness crate to the work area (build output, Cargo.lock and
    playback edits never touch /verif) and pin the dependency versions of /repo."""
    dst = os.path.join(common.ensure_work(), "kani-harness")
    os.makedirs(dst, exist_ok=True)
    common.run(["rsync", "-a", "--delete", "--exclude", "target", "--exclude", "Cargo.lock",
                HARNESS_SRC + "/", dst + "/"])
    lock_src = os.path.join(REPO, "Cargo.lock")
    if os.path.exists(lock_src):
        # cargo adds the harness package itself; dependencies stay pinned
        if not os.path.exists(os.path.join(dst, "Cargo.lock")):
            shutil.copy(lock_src, os.path.join(dst, "Cargo.lock"))
    # path dependency follows VERIF_REPO
    ct = os.path.join(dst, "Cargo.toml")
    s = open(ct).read().replace('"/repo/epserde"', '"%s/epserde"' % REPO)
    s = s.replace('"/repo/epserde-derive"', '"%s/epserde-derive"' % REPO)
    open(ct, "w").write(s)
    return dst


def parse_terse(out):
    """Split `cargo kani -j N --output-format terse` output into per-harness blocks."""
    cur = {}        # thread -> harness
    blocks = {}     # harness -> list of lines
    active = None
    for line in out.splitlines():
        m = re.match(r"^Thread (\d+): Checking harness (\S+?)\.\.\.$", line)
        if m:
            cur[m.group(1)] = m.group(2)
            active = None
            continue
        m = re.match(r"^Thread (\d+):\s*$", line)
        if m:
            active = cur.get(m.group(1))
            if active is not None:
                blocks.setdefault(active, [])
            continue
        m = re.match(r"^Checking harness (\S+?)\.\.\.$", line)
        if m:
            active = m.group(1)
            blocks.setdefault(active, [])
            continue
        if line.startswith("Manual Harness Summary") or line.startswith("Complete - ") \
                or line.startswith("Verification failed for"):
            active = None
            continue
        if active is not None:
            blocks[active].append(line)
    res = {}
    for h, lines in blocks.items():
        txt = "\n".join(lines)
        r = {"raw": txt, "failed": [], "time": 0.0, "status": None, "checks": 0,
             "covers_total": 0, "covers_sat": 0}
        m = re.search(r"\*\* (\d+) of (\d+) failed", txt)
        if m:
            r["checks"] = int(m.group(2))
        m = re.search(r"\*\* (\d+) of (\d+) cover properties satisfied", txt)
        if m:
            r["covers_sat"], r["covers_total"] = int(m.group(1)), int(m.group(2))
        m = re.search(r"Verification Time: ([\d.]+)s", txt)
        if m:
            r["time"] = float(m.group(1))
        fl = []
        lines2 = txt.splitlines()
        for i, l in enumerate(lines2):
            if l.startswith("Failed Checks: "):
                desc = l[len("Failed Checks: "):].strip()
                loc = ""
                if i + 1 < len(lines2) and lines2[i + 1].strip().startswith("File:"):
                    loc = lines2[i + 1].strip()
                fl.append((desc.strip('"'), loc))
        r["failed"] = fl
        if "VERIFICATION:- SUCCESSFUL" in txt:
            r["status"] = "ok"
        elif "CBMC failed" in txt or "CBMC timed out" in txt or "timed out" in txt:
            r["status"] = "tool"
        elif "VERIFICATION:- FAILED" in txt:
            r["status"] = "failed"
        else:
            r["status"] = "tool"
        res[h] = r
    return res


def classify(meta, r, prop):
    """-> (status, detail, undecided_reason)"""
    if r is None:
        return "undecided", [], "no result reported by Kani (harness missing or build failed)"
    if r["status"] == "tool":
        return "undecided", [], "CBMC did not finish (timeout / resource limit)"
    allow = re.compile(meta["allow"]) if meta["allow"] else None
    mine, harness_err, unwind, foreign = [], [], [], []
    for desc, loc in r["failed"]:
        full = (desc + " " + loc).strip()
        if "unwinding assertion" in desc:
            unwind.append(full)
            continue
        t = common.TAG_RE.search(desc)
        if t:
            if t.group(1) == "harness":
                harness_err.append(full)
            elif t.group(1) == prop:
                mine.append(full)
            else:
                # tagged for another property: that property's check reports it
                foreign.append(full)
            continue
        if allow and allow.search(full):
            continue
        # untagged: a safety check / panic inside the code under verification
        mine.append("[safety] " + full)
    if r["status"] == "failed" and not r["failed"]:
        return "undecided", [], "Kani reports FAILED without listing a failed check (tool problem; see the log)"
    if meta["expect"] == "fail":
        # must-fail canary: vacuity guard
        if r["status"] == "failed" and (mine or r["failed"]):
            return "discharged", [], None
        return "undecided", [], "must-fail canary verified: the harness preconditions are vacuous"
    if unwind:
        return "undecided", unwind, "unwinding bound too small: " + "; ".join(unwind[:2])
    if harness_err:
        return "undecided", harness_err, "harness sizing error: " + "; ".join(harness_err[:2])
    if mine:
        return "failed", mine, None
    if foreign and prop in meta["props"]:
        # A failed assertion panics: on the paths where an assertion of another property
        # fails, the assertions of this property that come after it were never examined.
        # That is not a violation of this property, and not a proof of it either.
        return "undecided", foreign, ("an assertion of another property fails in this lemma and may mask "
                                     "the assertions of this one (run that property's check): " + "; ".join(foreign[:2]))
    if r["status"] == "ok" or r["status"] == "failed":
        # failed only on whitelisted checks
        if r["status"] == "ok" and r["covers_total"] and r["covers_sat"] < r["covers_total"]:
            return "undecided", [], "cover point unreachable: harness is (partly) vacuous"
        return "discharged", [], None
    return "undecided", [], "unrecognised Kani output"


DERIVE_VARS = ("closed set: the sample definitions of kani-harness/src/types.rs, nm.rs and c17_zero.rs "
               "(the obligation is the type-correctness of the derive output, decided by rustc)")


def derive_compile_errors(out):
    """Compiler error blocks, if *every* one of them originates in the expansion
    of #[derive(Epserde)] on a sample definition (types.rs / nm.rs); else []."""
    blocks, cur = [], None
    for l in out.splitlines():
        if re.match(r"^(error|warning)(\[E\d+\])?:", l):
            if cur is not None:
                blocks.append(cur)
            cur = [l] if l.startswith("error") else None
            continue
        if cur is not None:
            cur.append(l)
    if cur is not None:
        blocks.append(cur)
    real = []
    for b in blocks:
        head = b[0]
        if re.search(r"could not compile|aborting due to|Failed to (compile|execute)|cargo (exited|terminated)|"
                     r"previous error|For more information", head):
            continue
        real.append("\n".join(b).rstrip())
    if not real:
        return []
    for b in real:
        loc = re.search(r"--> (\S+?):\d+:\d+", b)
        in_samples = bool(loc) and re.search(r"src/(types|nm|c17_zero)\.rs$", loc.group(1))
        from_derive = re.search(r"derive macro `(epserde::)?Epserde`|in this derive macro expansion|"
                                r"\|\s*#\[derive\([^\n]*Epserde[^\n]*\n[^\n]*\|\s+\^+", b)
        if not (in_samples and from_derive):
            return []
    return real


def kani_cmd(metas, jobs, timeout_s, export_json):
    cmd = ["cargo", "kani"] + KANI_FLAGS + [
        "--harness-timeout", f"{timeout_s}s", "-j", str(max(2, jobs)),
        "--output-format", "terse", "--exact", "--export-json", export_json]
    for m in metas:
        cmd += ["--harness", m["full"]]
    return cmd


def run(prop, tier, jobs=14, only=None):
    t0 = time.time()
    res = BackendResult()
    metas = load_meta()
    sel = select(metas, prop, tier, only)
    if not sel:
        return res
    timeout_s = 1800 if tier == "quick" else 5400
    with common.WorkLock("kani"):
        crate = sync_crate()
        export = os.path.join(WORK, f"kani-{prop}-{tier}.json")
        log = os.path.join(WORK, f"kani-{prop}-{tier}.log")
        cmd = kani_cmd(sel, jobs, timeout_s, export)
        res.checker_cmd = "cd %s && CARGO_NET_OFFLINE=true CARGO_TARGET_DIR=%s %s" % (
            crate, os.path.join(WORK, "target"), " ".join(shlex.quote(c) for c in cmd))
        rc, out = common.run(cmd, cwd=crate, env={"CARGO_TARGET_DIR": os.path.join(WORK, "target")},
                             log=log, limit_mem=True)
    res.extra["log"] = log
    if re.search(r"^error(\[E\d+\])?:", out, re.M) and "Checking harness" not in out:
        derive_errs = derive_compile_errors(out)
        if derive_errs and prop == "C05":
            # C05: "the derived code compiles". Every compiler error lies in the
            # output of #[derive(Epserde)] on a sample definition that is in the
            # supported grammar and compiled on the pinned tree.
            res.obligations.append(Obligation(
                name="rustc/types::derive_typechecks", prop=prop, backend="rustc (type checker)",
                kind="complete", status="failed", vars=DERIVE_VARS,
                detail=["[C05/derive.compiles] the code derived for a sample definition of the supported grammar "
                        "no longer type-checks: " + derive_errs[0].splitlines()[0][:200]],
                functions=["epserde-derive/src/lib.rs:epserde_derive"]))
            res.extra["replay_text"] = "\n\n".join(derive_errs[:6])
            res.wall_s = time.time() - t0
            return res
        res.undecided.append("kani: harness crate does not build against the current /repo "
                             "(API changed or tool error); see " + log)
        first = [l for l in out.splitlines() if l.startswith("error")][:3]
        res.notes += first
        res.wall_s = time.time() - t0
        return res
    parsed = parse_terse(out)
    if prop == "C05":
        res.obligations.append(Obligation(
            name="rustc/types::derive_typechecks", prop=prop, backend="rustc (type checker)",
            kind="complete", status="discharged", vars=DERIVE_VARS,
            functions=["epserde-derive/src/lib.rs:epserde_derive"]))
    for m in sel:
        r = parsed.get(m["full"])
        status, detail, why = classify(m, r, prop)
        ob = Obligation(
            name="kani/" + m["full"], prop=prop, backend="kani 0.68 (cbmc 6.11 + cadical)",
            kind=m["kind"] if m["kind"] in ("complete", "bounded") else "bounded",
            status=status, bound=m["bound"], vars=m["vars"],
            time_s=(r or {}).get("time", 0.0), detail=detail,
            checks=(r or {}).get("checks", 0),
            functions=[x for x in m["fns"].split(",") if x])
        res.obligations.append(ob)
        if status == "undecided":
            res.undecided.append(f"{ob.name}: {why}")
    res.trusted = scan_trusted(sel)
    res.wall_s = time.time() - t0
    return res


def run_named(names, jobs=8):
    """Run the named harnesses regardless of property and tier (used to decide
    whether a failed Verus obligation has a *complete* Kani lemma of the same
    contract that still holds). -> {name: True iff discharged for every property
    the harness serves and the harness is complete}"""
    metas = load_meta()
    sel = select(metas, None, "thorough", names)
    if not sel:
        return {}
    with common.WorkLock("kani"):
        crate = sync_crate()
        export = os.path.join(WORK, "kani-paired.json")
        log = os.path.join(WORK, "kani-paired.log")
        cmd = kani_cmd(sel, jobs, 1800, export)
        rc, out = common.run(cmd, cwd=crate, env={"CARGO_TARGET_DIR": os.path.join(WORK, "target")},
                             log=log, limit_mem=True)
    if re.search(r"^error(\[E\d+\])?:", out, re.M) and "Checking harness" not in out:
        return {}
    parsed = parse_terse(out)
    res = {}
    for m in sel:
        r = parsed.get(m["full"])
        ok = m["kind"] == "complete"
        for pr in m["props"]:
            status, _, _ = classify(m, r, pr)
            ok = ok and status == "discharged"
        res[m["name"]] = ok
    return res


def scan_trusted(sel):
    """Mechanical scan of the harness crate for stubs and whitelists."""
    out = set()
    mods = {m["module"] for m in sel}
    for mod in mods:
        path = os.path.join(HARNESS_SRC, "src", mod + ".rs")
        for line in open(path):
            s = line.strip()
            if s.startswith("#[kani::stub("):
                out.add("kani stub (assumed, not verified): " + s)
    for m in sel:
        if m["allow"]:
            out.add(f"whitelisted failures in {m['full']}: /{m['allow']}/")
    out.add("Kani 0.68 / CBMC 6.11 / CaDiCaL; rustc MIR -> goto translation")
    out.add("harness environment (sinks.rs) and reference encoder (refenc.rs) are specification text in /verif")
    return sorted(out)


# ------------------------------------------------------------------ replay

def playback(meta, prop, budget_s=900):
    """Re-run one failing harness with concrete playback and execute the
    generated unit tests natively against the real crate.
    Returns (text, reproduced: bool)."""
    with common.WorkLock("kani"):
        crate = sync_crate()
        env = {"CARGO_TARGET_DIR": os.path.join(WORK, "target")}
        cmd = ["cargo", "kani"] + KANI_FLAGS + ["-Z", "concrete-playback",
               "--concrete-playback=print", "--harness-timeout", f"{budget_s}s",
               "--exact", "--harness", meta["full"]]
        rc, out = common.run(cmd, cwd=crate, env=env, timeout=budget_s + 120)
        txt = ["$ " + " ".join(cmd), tail_relevant(out)]
        tests = re.findall(r"```\s*\n(.*?)```", out, re.S)
        tests = [t for t in tests if "concrete_playback_run" in t]
        if not tests:
            txt.append("[replay] Kani produced no concrete playback test")
            return "\n".join(txt), False
        body = ["// generated by /verif/check from Kani's concrete playback output",
                "#![allow(unused_imports)]"]
        names = []
        for t in tests[:4]:
            t = re.sub(r",\s*%s\)" % re.escape(meta["name"]),
                       ", crate::%s::%s)" % (meta["module"], meta["name"]), t)
            m = re.search(r"fn (kani_concrete_playback_\w+)", t)
            if m and m.group(1) not in names:
                names.append(m.group(1))
                body.append(t)
        with open(os.path.join(crate, "src", "pb.rs"), "w") as f:
            f.write("\n".join(body) + "\n")
        txt.append("--- concrete inputs (one byte vector per kani::any() call, in order) ---")
        txt.append("\n".join(body[2:]))
        reproduced = False
        cmd2 = ["cargo", "kani", "playback", "-Z", "concrete-playback", "--", "kani_concrete_playback"]
        rc2, out2 = common.run(cmd2, cwd=crate, env=env, timeout=900)
        txt.append("$ " + " ".join(cmd2))
        keep = [l for l in out2.splitlines()
                if re.search(r"panicked at|^test |test result|^\s+\[C\d\d|assertion|overflow|index out|^error|signal|double free|corrupt|SIGABRT|SIGSEGV|Caused by|process didn't exit", l)]
        txt.append("\n".join(keep[-40:]))
        if re.search(r"panicked at|test result: FAILED|signal: \d+|SIGABRT|SIGSEGV|double free", out2):
            reproduced = True
        # leave the work copy clean for the next run
        return "\n".join(txt), reproduced


def tail_relevant(out):
    keep = []
    for l in out.splitlines():
        if "Unwinding" in l or l.startswith("warning") or not l.strip():
            continue
        if re.search(r"^Failed Checks|^ File:|^VERIFICATION|^error", l):
            keep.append(l)
    return "\n".join(keep[-60:])
