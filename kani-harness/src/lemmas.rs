//! Generic lemma bodies (Hoare triples over the real epserde functions).
//!
//! Every assertion message starts with `[Cnn/obligation]`; the runner
//! attributes a failed check to the property in the tag.

use crate::refenc::*;
use crate::sinks::*;
use crate::types::*;
use core::marker::PhantomData;
use core::num::*;
use core::ops::{Bound, ControlFlow};
use epserde::deser::{self, DeserializeInner, ReadNoStd, ReadWithPos, ReaderWithPos, SliceWithPos};
use epserde::ser::{self, SerializeInner, WriteNoStd, WriteWithPos, WriterWithPos};

pub const MAX_PREFIX: usize = 16;

/// Assert each fact on a nondeterministically chosen branch of its own, so that a failing
/// assertion (which ends its path) cannot mask the others.
#[macro_export]
macro_rules! check_each {
    ($( ($c:expr, $m:literal) ),+ $(,)?) => {{
        #[cfg(kani)]
        let pick: usize = kani::any();
        #[cfg(not(kani))]
        let pick: usize = 0;
        let mut i = 0usize;
        $( if pick == i { assert!($c, $m); } i += 1; )+
        let _ = i;
    }};
}

#[cfg(kani)]
pub fn sym_index(n: usize) -> usize {
    let i: usize = kani::any();
    kani::assume(i < n);
    i
}
#[cfg(not(kani))]
pub fn sym_index(_n: usize) -> usize {
    0
}

/// Symbolic value generation. `B` bounds every sequence length (B = 0 for
/// fixed-size types means "unused").
pub trait Sym: Sized {
    fn sym(bound: usize) -> Self;
}

#[cfg(kani)]
mod sym_impls {
    use super::*;
    macro_rules! sym_any {
        ($($t:ty),*) => {$( impl Sym for $t { fn sym(_b: usize) -> Self { kani::any() } } )*};
    }
    sym_any!(
        u8, u16, u32, u64, u128, usize, i8, i16, i32, i64, i128, isize, f32, f64, bool, char, (),
        NonZeroU8, NonZeroU16, NonZeroU32, NonZeroU64, NonZeroU128, NonZeroUsize, NonZeroI8,
        NonZeroI16, NonZeroI32, NonZeroI64, NonZeroI128, NonZeroIsize
    );
    impl<T> Sym for PhantomData<T> {
        fn sym(_b: usize) -> Self {
            PhantomData
        }
    }
    impl<T: Sym> Sym for Option<T> {
        fn sym(b: usize) -> Self {
            if kani::any() {
                Some(T::sym(b))
            } else {
                None
            }
        }
    }
    impl<T: Sym> Sym for Bound<T> {
        fn sym(b: usize) -> Self {
            let k: u8 = kani::any();
            if k == 0 {
                Bound::Unbounded
            } else if k == 1 {
                Bound::Included(T::sym(b))
            } else {
                Bound::Excluded(T::sym(b))
            }
        }
    }
    impl<B: Sym, C: Sym> Sym for ControlFlow<B, C> {
        fn sym(b: usize) -> Self {
            if kani::any() {
                ControlFlow::Break(B::sym(b))
            } else {
                ControlFlow::Continue(C::sym(b))
            }
        }
    }
    impl<T: Sym> Sym for core::ops::Range<T> {
        fn sym(b: usize) -> Self {
            T::sym(b)..T::sym(b)
        }
    }
    impl<T: Sym> Sym for core::ops::RangeFrom<T> {
        fn sym(b: usize) -> Self {
            T::sym(b)..
        }
    }
    impl<T: Sym> Sym for core::ops::RangeTo<T> {
        fn sym(b: usize) -> Self {
            ..T::sym(b)
        }
    }
    impl<T: Sym> Sym for core::ops::RangeToInclusive<T> {
        fn sym(b: usize) -> Self {
            ..=T::sym(b)
        }
    }
    /// freshly built inclusive ranges are not exhausted
    impl<T: Sym> Sym for core::ops::RangeInclusive<T> {
        fn sym(b: usize) -> Self {
            T::sym(b)..=T::sym(b)
        }
    }
    impl Sym for core::ops::RangeFull {
        fn sym(_b: usize) -> Self {
            ..
        }
    }
    impl<T: Sym> Sym for Vec<T> {
        fn sym(b: usize) -> Self {
            let n: usize = kani::any();
            kani::assume(n <= b);
            let mut v = Vec::with_capacity(b);
            let mut i = 0;
            while i < n {
                v.push(T::sym(b));
                i += 1;
            }
            v
        }
    }
    impl<T: Sym> Sym for Box<[T]> {
        fn sym(b: usize) -> Self {
            <Vec<T>>::sym(b).into_boxed_slice()
        }
    }
    /// ASCII strings (every byte symbolic below 0x80); non-ASCII samples are
    /// separate concrete harnesses.
    impl Sym for String {
        fn sym(b: usize) -> Self {
            let v = <Vec<u8>>::sym(b);
            let mut i = 0;
            while i < v.len() {
                kani::assume(v[i] < 0x80);
                i += 1;
            }
            unsafe { String::from_utf8_unchecked(v) }
        }
    }
    impl Sym for Box<str> {
        fn sym(b: usize) -> Self {
            String::sym(b).into_boxed_str()
        }
    }
    impl<T: Sym, const K: usize> Sym for [T; K] {
        fn sym(b: usize) -> Self {
            core::array::from_fn(|_| T::sym(b))
        }
    }
    impl<T: Sym> Sym for (T,) {
        fn sym(b: usize) -> Self {
            (T::sym(b),)
        }
    }
    impl<T: Sym> Sym for (T, T) {
        fn sym(b: usize) -> Self {
            (T::sym(b), T::sym(b))
        }
    }
    impl<T: Sym> Sym for (T, T, T) {
        fn sym(b: usize) -> Self {
            (T::sym(b), T::sym(b), T::sym(b))
        }
    }
    impl<T: Sym> Sym for (T, T, T, T, T, T, T, T, T, T, T, T) {
        fn sym(b: usize) -> Self {
            (
                T::sym(b),
                T::sym(b),
                T::sym(b),
                T::sym(b),
                T::sym(b),
                T::sym(b),
                T::sym(b),
                T::sym(b),
                T::sym(b),
                T::sym(b),
                T::sym(b),
                T::sym(b),
            )
        }
    }
    impl Sym for Z8 {
        fn sym(_b: usize) -> Self {
            Z8 {
                a: kani::any(),
                b: kani::any(),
                c: kani::any(),
            }
        }
    }
    impl Sym for Z32 {
        fn sym(_b: usize) -> Self {
            Z32 {
                a: kani::any(),
                b: kani::any(),
                c: kani::any(),
            }
        }
    }
    impl Sym for ZT {
        fn sym(b: usize) -> Self {
            ZT(Z8::sym(b), [kani::any(), kani::any()])
        }
    }
    impl<const K: usize> Sym for ZU<K> {
        fn sym(_b: usize) -> Self {
            ZU
        }
    }
    impl Sym for ZP {
        fn sym(_b: usize) -> Self {
            ZP { tag: kani::any(), value: kani::any() }
        }
    }
    impl Sym for ED {
        fn sym(_b: usize) -> Self {
            let k: u8 = kani::any();
            match k {
                0 => ED::Low,
                1 => ED::Mid,
                _ => ED::High,
            }
        }
    }
    impl Sym for DB {
        fn sym(_b: usize) -> Self {
            DB { blk: kani::any() }
        }
    }
    impl Sym for D1 {
        fn sym(b: usize) -> Self {
            D1 {
                a: kani::any(),
                b: Sym::sym(b),
                c: Sym::sym(b),
            }
        }
    }
    impl Sym for D2 {
        fn sym(b: usize) -> Self {
            D2 {
                x: kani::any(),
                z: Sym::sym(b),
                y: Sym::sym(b),
                t: Sym::sym(b),
            }
        }
    }
    impl Sym for DT {
        fn sym(b: usize) -> Self {
            DT(kani::any(), Sym::sym(b))
        }
    }
    impl Sym for E1 {
        fn sym(_b: usize) -> Self {
            let k: u8 = kani::any();
            match k {
                0 => E1::A,
                1 => E1::B(kani::any()),
                2 => E1::C {
                    x: kani::any(),
                    y: kani::any(),
                },
                _ => E1::D,
            }
        }
    }
    impl<T: Sym, U: Sym> Sym for G2<T, U> {
        fn sym(b: usize) -> Self {
            G2 {
                a: T::sym(b),
                b: U::sym(b),
                c: kani::any(),
            }
        }
    }
    impl<T: Sym> Sym for GM<T> {
        fn sym(b: usize) -> Self {
            GM {
                v: Sym::sym(b),
                n: kani::any(),
            }
        }
    }
    impl<P: Clone, const Q: usize> Sym for GP<P, Q> {
        fn sym(b: usize) -> Self {
            GP {
                arr: Sym::sym(b),
                m: PhantomData,
            }
        }
    }
    impl<V: Sym> Sym for GE<V> {
        fn sym(b: usize) -> Self {
            let k: u8 = kani::any();
            match k {
                0 => GE::N,
                1 => GE::S {
                    a: kani::any(),
                    b: V::sym(b),
                },
                _ => GE::T(V::sym(b), kani::any()),
            }
        }
    }
}

/// Stub for `String::from_utf8` (trusted: std's UTF-8 validator is not under
/// verification; harness strings are ASCII, for which validation succeeds).
pub fn stub_from_utf8(v: Vec<u8>) -> Result<String, std::string::FromUtf8Error> {
    Ok(unsafe { String::from_utf8_unchecked(v) })
}

// ------------------------------------------------------------------ ε-copy view

pub const MAX_BORROWS: usize = 8;
pub const COPIED: usize = usize::MAX;

#[derive(Clone, Copy)]
pub struct Borrow {
    pub addr: usize,
    pub bytes: usize,
    pub align: usize,
}

pub struct Borrows {
    pub b: [Borrow; MAX_BORROWS],
    pub n: usize,
}
impl Borrows {
    pub fn new() -> Self {
        Self {
            b: [Borrow {
                addr: 0,
                bytes: 0,
                align: 1,
            }; MAX_BORROWS],
            n: 0,
        }
    }
    /// a zero-copy block that the eps-copy form holds by value (fully copied
    /// field of a deep type): keeps the index in step with the block list
    pub fn copied(&mut self) {
        self.push(COPIED, 0, 1);
    }
    pub fn push(&mut self, addr: usize, bytes: usize, align: usize) {
        assert!(self.n < MAX_BORROWS, "[harness] too many borrows");
        self.b[self.n] = Borrow { addr, bytes, align };
        self.n += 1;
    }
}

/// Relates an ε-copy result to the value it must describe (C02) and lists the
/// borrowed parts of the result in pre-order (C03).
pub trait EpsCmp: DeserializeInner + Sized {
    fn eps_eq<'a>(d: &<Self as DeserializeInner>::DeserType<'a>, v: &Self) -> bool;
    fn borrows<'a>(d: &<Self as DeserializeInner>::DeserType<'a>, out: &mut Borrows);
}

/// types whose ε-copy form is the value itself
macro_rules! eps_value {
    ($($t:ty),*) => {$(
        impl EpsCmp for $t {
            fn eps_eq<'a>(d: &Self, v: &Self) -> bool { d.keq(v) }
            fn borrows<'a>(_d: &Self, _o: &mut Borrows) {}
        }
    )*};
}
eps_value!(
    u8, u16, u32, u64, u128, usize, i8, i16, i32, i64, i128, isize, f32, f64, bool, char, (),
    NonZeroU8, NonZeroU16, NonZeroU32, NonZeroU64, NonZeroU128, NonZeroUsize, NonZeroI8,
    NonZeroI16, NonZeroI32, NonZeroI64, NonZeroI128, NonZeroIsize, core::ops::RangeFull
);
impl<T> EpsCmp for PhantomData<T> {
    fn eps_eq<'a>(_d: &Self, _v: &Self) -> bool {
        true
    }
    fn borrows<'a>(_d: &Self, _o: &mut Borrows) {}
}

impl<T: EpsCmp> EpsCmp for Option<T> {
    fn eps_eq<'a>(d: &Option<T::DeserType<'a>>, v: &Self) -> bool {
        match (d, v) {
            (None, None) => true,
            (Some(a), Some(b)) => T::eps_eq(a, b),
            _ => false,
        }
    }
    fn borrows<'a>(d: &Option<T::DeserType<'a>>, o: &mut Borrows) {
        if let Some(a) = d {
            T::borrows(a, o)
        }
    }
}
impl<T: EpsCmp> EpsCmp for Bound<T> {
    fn eps_eq<'a>(d: &Bound<T::DeserType<'a>>, v: &Self) -> bool {
        match (d, v) {
            (Bound::Unbounded, Bound::Unbounded) => true,
            (Bound::Included(a), Bound::Included(b)) => T::eps_eq(a, b),
            (Bound::Excluded(a), Bound::Excluded(b)) => T::eps_eq(a, b),
            _ => false,
        }
    }
    fn borrows<'a>(d: &Bound<T::DeserType<'a>>, o: &mut Borrows) {
        match d {
            Bound::Included(a) | Bound::Excluded(a) => T::borrows(a, o),
            _ => {}
        }
    }
}
impl<B: EpsCmp, C: EpsCmp> EpsCmp for ControlFlow<B, C> {
    fn eps_eq<'a>(d: &ControlFlow<B::DeserType<'a>, C::DeserType<'a>>, v: &Self) -> bool {
        match (d, v) {
            (ControlFlow::Break(a), ControlFlow::Break(b)) => B::eps_eq(a, b),
            (ControlFlow::Continue(a), ControlFlow::Continue(b)) => C::eps_eq(a, b),
            _ => false,
        }
    }
    fn borrows<'a>(d: &ControlFlow<B::DeserType<'a>, C::DeserType<'a>>, o: &mut Borrows) {
        match d {
            ControlFlow::Break(a) => B::borrows(a, o),
            ControlFlow::Continue(a) => C::borrows(a, o),
        }
    }
}

/// ranges over primitive indices (the only ranges epserde supports: `Idx: ZeroCopy`)
macro_rules! eps_ranges {
    ($($t:ty),*) => {$(
        impl EpsCmp for core::ops::Range<$t> {
            fn eps_eq<'a>(d: &Self, v: &Self) -> bool { d.keq(v) }
            fn borrows<'a>(_d: &Self, _o: &mut Borrows) {}
        }
        impl EpsCmp for core::ops::RangeFrom<$t> {
            fn eps_eq<'a>(d: &Self, v: &Self) -> bool { d.keq(v) }
            fn borrows<'a>(_d: &Self, _o: &mut Borrows) {}
        }
        impl EpsCmp for core::ops::RangeTo<$t> {
            fn eps_eq<'a>(d: &Self, v: &Self) -> bool { d.keq(v) }
            fn borrows<'a>(_d: &Self, _o: &mut Borrows) {}
        }
        impl EpsCmp for core::ops::RangeToInclusive<$t> {
            fn eps_eq<'a>(d: &Self, v: &Self) -> bool { d.keq(v) }
            fn borrows<'a>(_d: &Self, _o: &mut Borrows) {}
        }
        impl EpsCmp for core::ops::RangeInclusive<$t> {
            fn eps_eq<'a>(d: &Self, v: &Self) -> bool { d.keq(v) }
            fn borrows<'a>(_d: &Self, _o: &mut Borrows) {}
        }
    )*};
}
eps_ranges!(u32, u8);

/// sequences of zero-copy elements: the ε-copy form is a borrowed slice
macro_rules! eps_seq_zero {
    ($($t:ty),*) => {$(
        impl EpsCmp for Vec<$t> {
            fn eps_eq<'a>(d: &&'a [$t], v: &Self) -> bool { keq_seq(d, v.as_slice()) }
            fn borrows<'a>(d: &&'a [$t], o: &mut Borrows) {
                o.push(d.as_ptr() as usize, core::mem::size_of_val(*d), core::mem::align_of::<$t>());
            }
        }
        impl EpsCmp for Box<[$t]> {
            fn eps_eq<'a>(d: &&'a [$t], v: &Self) -> bool { keq_seq(d, &v[..]) }
            fn borrows<'a>(d: &&'a [$t], o: &mut Borrows) {
                o.push(d.as_ptr() as usize, core::mem::size_of_val(*d), core::mem::align_of::<$t>());
            }
        }
    )*};
}
eps_seq_zero!(u8, u16, u32, u64, u128, (), Z8, Z32, ZT, ZP, (u16, u16), [u16; 2], bool);

/// sequences of deep elements: rebuilt with substituted elements
macro_rules! eps_seq_deep {
    ($($t:ty),*) => {$(
        impl EpsCmp for Vec<$t> {
            fn eps_eq<'a>(d: &Vec<<$t as DeserializeInner>::DeserType<'a>>, v: &Self) -> bool {
                if d.len() != v.len() { return false; }
                let mut i = 0;
                while i < v.len() {
                    if !<$t as EpsCmp>::eps_eq(&d[i], &v[i]) { return false; }
                    i += 1;
                }
                true
            }
            fn borrows<'a>(d: &Vec<<$t as DeserializeInner>::DeserType<'a>>, o: &mut Borrows) {
                let mut i = 0;
                while i < d.len() { <$t as EpsCmp>::borrows(&d[i], o); i += 1; }
            }
        }
        impl EpsCmp for Box<[$t]> {
            fn eps_eq<'a>(d: &Box<[<$t as DeserializeInner>::DeserType<'a>]>, v: &Self) -> bool {
                if d.len() != v.len() { return false; }
                let mut i = 0;
                while i < v.len() {
                    if !<$t as EpsCmp>::eps_eq(&d[i], &v[i]) { return false; }
                    i += 1;
                }
                true
            }
            fn borrows<'a>(d: &Box<[<$t as DeserializeInner>::DeserType<'a>]>, o: &mut Borrows) {
                let mut i = 0;
                while i < d.len() { <$t as EpsCmp>::borrows(&d[i], o); i += 1; }
            }
        }
    )*};
}
eps_seq_deep!(Option<u8>, Vec<u8>, Vec<u16>, String, E1, DT, [Option<u8>; 0]);

impl EpsCmp for String {
    fn eps_eq<'a>(d: &&'a str, v: &Self) -> bool {
        keq_seq(d.as_bytes(), v.as_bytes())
    }
    fn borrows<'a>(d: &&'a str, o: &mut Borrows) {
        o.push(d.as_ptr() as usize, d.len(), 1);
    }
}
impl EpsCmp for Box<str> {
    fn eps_eq<'a>(d: &&'a str, v: &Self) -> bool {
        keq_seq(d.as_bytes(), v.as_bytes())
    }
    fn borrows<'a>(d: &&'a str, o: &mut Borrows) {
        o.push(d.as_ptr() as usize, d.len(), 1);
    }
}

/// arrays of zero-copy elements: reference to the array in the buffer
macro_rules! eps_arr_zero {
    ($($t:ty ; $k:expr),*) => {$(
        impl EpsCmp for [$t; $k] {
            fn eps_eq<'a>(d: &&'a [$t; $k], v: &Self) -> bool { keq_seq(&d[..], &v[..]) }
            fn borrows<'a>(d: &&'a [$t; $k], o: &mut Borrows) {
                o.push(*d as *const [$t; $k] as usize, core::mem::size_of::<[$t; $k]>(), core::mem::align_of::<$t>());
            }
        }
    )*};
}
eps_arr_zero!(u32; 3, u16; 0, u16; 2, u64; 2, Z8; 2, (); 2, u8; 5, u8; 3, (u16, u16); 2);

/// arrays of deep elements: array of substituted elements
macro_rules! eps_arr_deep {
    ($($t:ty ; $k:expr),*) => {$(
        impl EpsCmp for [$t; $k] {
            fn eps_eq<'a>(d: &[<$t as DeserializeInner>::DeserType<'a>; $k], v: &Self) -> bool {
                let mut i = 0;
                while i < $k {
                    if !<$t as EpsCmp>::eps_eq(&d[i], &v[i]) { return false; }
                    i += 1;
                }
                true
            }
            fn borrows<'a>(d: &[<$t as DeserializeInner>::DeserType<'a>; $k], o: &mut Borrows) {
                let mut i = 0;
                while i < $k { <$t as EpsCmp>::borrows(&d[i], o); i += 1; }
            }
        }
    )*};
}
eps_arr_deep!(Option<u8>; 2, Vec<u16>; 2, Option<u8>; 0);

/// homogeneous tuples / zero-copy structs: reference into the buffer
macro_rules! eps_ref {
    ($($t:ty),*) => {$(
        impl EpsCmp for $t {
            fn eps_eq<'a>(d: &&'a $t, v: &Self) -> bool { (*d).keq(v) }
            fn borrows<'a>(d: &&'a $t, o: &mut Borrows) {
                o.push(*d as *const $t as usize, core::mem::size_of::<$t>(), core::mem::align_of::<$t>());
            }
        }
    )*};
}
eps_ref!(
    (u32,),
    (u16, u16),
    (u32, u32),
    (u64, u64, u64),
    (u8, u8, u8, u8, u8, u8, u8, u8, u8, u8, u8, u8),
    Z8,
    Z32,
    ZT
);
impl<const K: usize> EpsCmp for ZU<K> {
    fn eps_eq<'a>(_d: &&'a ZU<K>, _v: &Self) -> bool {
        true
    }
    fn borrows<'a>(d: &&'a ZU<K>, o: &mut Borrows) {
        o.push(*d as *const ZU<K> as usize, 0, 1);
    }
}

impl EpsCmp for ED {
    fn eps_eq<'a>(d: &<ED as DeserializeInner>::DeserType<'a>, v: &Self) -> bool {
        d.keq(v)
    }
    fn borrows<'a>(_d: &<ED as DeserializeInner>::DeserType<'a>, _o: &mut Borrows) {}
}

// derived deep types: field by field
impl EpsCmp for D1 {
    fn eps_eq<'a>(d: &<D1 as DeserializeInner>::DeserType<'a>, v: &Self) -> bool {
        d.a == v.a && d.b.keq(&v.b) && d.c.keq(&v.c)
    }
    fn borrows<'a>(_d: &<D1 as DeserializeInner>::DeserType<'a>, o: &mut Borrows) {
        o.copied(); // b: Vec<u16> is not a parameter-typed field: fully copied
    }
}
impl EpsCmp for D2 {
    fn eps_eq<'a>(d: &<D2 as DeserializeInner>::DeserType<'a>, v: &Self) -> bool {
        d.x == v.x && d.z.keq(&v.z) && d.y.keq(&v.y) && d.t.keq(&v.t)
    }
    fn borrows<'a>(_d: &<D2 as DeserializeInner>::DeserType<'a>, o: &mut Borrows) {
        o.copied(); // z
        o.copied(); // t
    }
}
impl EpsCmp for DT {
    fn eps_eq<'a>(d: &<DT as DeserializeInner>::DeserType<'a>, v: &Self) -> bool {
        d.keq(v)
    }
    fn borrows<'a>(_d: &<DT as DeserializeInner>::DeserType<'a>, _o: &mut Borrows) {}
}
impl EpsCmp for E1 {
    fn eps_eq<'a>(d: &<E1 as DeserializeInner>::DeserType<'a>, v: &Self) -> bool {
        d.keq(v)
    }
    fn borrows<'a>(_d: &<E1 as DeserializeInner>::DeserType<'a>, _o: &mut Borrows) {}
}
/// `G2<T, U>`: both parameters are field types, so both are substituted
/// (the C05 substitution rule: `DeserType<G2<T,U>> == G2<DeserType<T>, DeserType<U>>`;
/// this impl only type-checks if that equality holds).
impl<T: EpsCmp, U: EpsCmp> EpsCmp for G2<T, U>
where
    for<'a> G2<T, U>: DeserializeInner<DeserType<'a> = G2<T::DeserType<'a>, U::DeserType<'a>>>,
{
    fn eps_eq<'a>(d: &G2<T::DeserType<'a>, U::DeserType<'a>>, v: &Self) -> bool {
        T::eps_eq(&d.a, &v.a) && U::eps_eq(&d.b, &v.b) && d.c == v.c
    }
    fn borrows<'a>(d: &G2<T::DeserType<'a>, U::DeserType<'a>>, o: &mut Borrows) {
        T::borrows(&d.a, o);
        U::borrows(&d.b, o);
    }
}
/// `GM<T>`: the parameter is only mentioned (`Vec<T>`), the field is fully
/// deserialized and keeps its type: `DeserType<GM<T>> == GM<T>`.
impl<T: KEq> EpsCmp for GM<T>
where
    for<'a> GM<T>: DeserializeInner<DeserType<'a> = GM<T>>,
{
    fn eps_eq<'a>(d: &GM<T>, v: &Self) -> bool {
        d.keq(v)
    }
    fn borrows<'a>(_d: &GM<T>, o: &mut Borrows) {
        o.copied();
    }
}
impl<V: EpsCmp> EpsCmp for GE<V>
where
    for<'a> GE<V>: DeserializeInner<DeserType<'a> = GE<V::DeserType<'a>>>,
{
    fn eps_eq<'a>(d: &GE<V::DeserType<'a>>, v: &Self) -> bool {
        match (d, v) {
            (GE::N, GE::N) => true,
            (GE::S { a, b }, GE::S { a: a2, b: b2 }) => a == a2 && V::eps_eq(b, b2),
            (GE::T(x, k), GE::T(x2, k2)) => V::eps_eq(x, x2) && k == k2,
            _ => false,
        }
    }
    fn borrows<'a>(d: &GE<V::DeserType<'a>>, o: &mut Borrows) {
        match d {
            GE::S { b, .. } => V::borrows(b, o),
            GE::T(x, _) => V::borrows(x, o),
            _ => {}
        }
    }
}

// ------------------------------------------------------------------ lemma bodies

/// Serialize `v` at stream offset `pos0` (after `pos0` zero bytes) through the
/// real position-tracking writer. Returns what `_serialize_inner` returned and
/// the position reported by the writer.
pub fn ser_at<T: SerializeInner, W: WriteNoStd>(
    v: &T,
    pos0: usize,
    sink: &mut W,
) -> (ser::Result<()>, usize) {
    let mut w = WriterWithPos::new(sink);
    let pre = [0u8; MAX_PREFIX];
    if let Err(e) = w.write_all(&pre[..pos0]) {
        return (Err(e), 0);
    }
    let r = v._serialize_inner(&mut w);
    (r, w.pos())
}

pub fn ref_at<T: RefEnc, const N: usize>(v: &T, pos0: usize) -> RefOut<N> {
    let mut o = RefOut::<N>::new();
    o.start_at(pos0);
    v.enc(&mut o);
    o
}

/// Byte-sequence equality as a universally quantified index (loop-free:
/// the index is a fresh symbolic variable, so the assertion made on the result
/// covers every position).
#[cfg(kani)]
pub fn same_bytes(a: &[u8], b: &[u8]) -> bool {
    if a.len() != b.len() {
        return false;
    }
    let i: usize = kani::any();
    if i < a.len() {
        a[i] == b[i]
    } else {
        true
    }
}
#[cfg(not(kani))]
pub fn same_bytes(a: &[u8], b: &[u8]) -> bool {
    a == b
}

/// C01 / C06 / C07 lemma: for every `v` and every start offset `pos0`,
/// serialization succeeds, emits exactly the reference bytes, reports the
/// number of bytes handed to the sink, and full-copy deserialization of those
/// bytes (slice cursor and generic reader) returns `v` and stops at the end.
pub fn lemma_rt_full<T, const N: usize>(v: &T, pos0: usize)
where
    T: SerializeInner + DeserializeInner + RefEnc + KEq,
{
    // The prefix is counted, not stored: the payload lies at buf[0..n] and
    // stream offsets are pos0 + buffer offsets (full-copy never looks at
    // addresses, only at positions).
    let mut sink = CountingSink::<N>::new();
    let (r, pos) = ser_at(v, pos0, &mut sink);
    assert!(r.is_ok(), "[C01/ser.ok] serialization into an infallible sink succeeds");
    assert!(pos == pos0 + sink.len, "[C07/ser.count] reported position equals bytes handed to the writer");
    let n = sink.len;

    let o: RefOut<N> = ref_at(v, pos0);
    let same = same_bytes(&sink.buf[..n], o.bytes());

    // generic reader (ReaderWithPos over a ReadNoStd source), prefix counted
    let mut src = CountingSrc::new(&sink.buf[..n]);
    let mut rd = ReaderWithPos::new(&mut src);
    let mut pre = [0u8; MAX_PREFIX];
    let _ = rd.read_exact(&mut pre[..pos0]);
    let (ok, value, consumed) = match T::_deserialize_full_inner(&mut rd) {
        Ok(d) => (true, d.keq(v), rd.pos() == pos0 + n),
        Err(e) => {
            core::mem::forget(e);
            (false, true, true)
        }
    };
    // A failed assertion ends the path it fails on. The facts belong to different
    // properties, so each is asserted on a branch of its own (nondeterministic choice):
    // a failure of one never hides another.
    check_each!(
        (same, "[C06/bytes.refenc] emitted bytes equal the reference encoding"),
        (same, "[C07/bytes.padding] gaps are zero, minimal, and blocks start at multiples of their unit"),
        (ok, "[C01/full.ok] full-copy deserialization succeeds"),
        (value, "[C01/full.value] full-copy result equals the original"),
        (consumed, "[C07/full.consumed] full-copy consumes exactly the bytes written")
    );
}

/// Same property, with the stream really placed in a 128-byte aligned buffer
/// (prefix stored), deserializing through the slice cursor and through
/// `ReaderWithPos` over an `io::Read`. `pos0` should be concrete here.
pub fn lemma_rt_full_placed<T, const N: usize>(v: &T, pos0: usize)
where
    T: SerializeInner + DeserializeInner + RefEnc + KEq,
{
    let mut sink = ArrSink::<N>::new();
    let (r, _pos) = ser_at(v, pos0, &mut sink);
    assert!(r.is_ok(), "[C01/ser.ok] serialization into an infallible sink succeeds");
    let n = sink.len;
    let mut s = SliceWithPos {
        data: &sink.buf[pos0..n],
        pos: pos0,
    };
    match T::_deserialize_full_inner(&mut s) {
        Ok(d) => {
            assert!(d.keq(v), "[C01/full.value.slice] full-copy result equals the original (slice cursor)");
            assert!(s.pos == n, "[C07/full.consumed.slice] full-copy consumes exactly the bytes written (slice cursor)");
        }
        Err(e) => {
            core::mem::forget(e);
            assert!(false, "[C01/full.ok.slice] full-copy deserialization succeeds (slice cursor)")
        }
    };
    let mut src: &[u8] = &sink.buf[..n];
    let mut r = ReaderWithPos::new(&mut src);
    let mut pre = [0u8; MAX_PREFIX];
    let _ = r.read_exact(&mut pre[..pos0]);
    match T::_deserialize_full_inner(&mut r) {
        Ok(d) => {
            assert!(d.keq(v), "[C01/full.value.io] full-copy result equals the original (io reader)");
            assert!(r.pos() == n, "[C07/full.consumed.io] full-copy consumes exactly the bytes written (io reader)");
        }
        Err(e) => {
            core::mem::forget(e);
            assert!(false, "[C01/full.ok.io] full-copy deserialization succeeds (io reader)")
        }
    };
}

/// C02 / C03 / C07 lemma: ε-copy of the same bytes, from a buffer whose base is
/// 128-byte aligned, succeeds, describes `v`, agrees with full copy, consumes
/// exactly the bytes written, and every borrowed part sits at the offset of
/// the corresponding reference block, with its length, inside the buffer, and
/// aligned for its type.
pub fn lemma_rt_eps<T, const N: usize>(v: &T, pos0: usize)
where
    T: SerializeInner + DeserializeInner + RefEnc + KEq + EpsCmp,
{
    let mut sink = ArrSink::<N>::new();
    let (r, _pos) = ser_at(v, pos0, &mut sink);
    assert!(r.is_ok(), "[C01/ser.ok] serialization into an infallible sink succeeds");
    let n = sink.len;
    let base = sink.buf.as_ptr() as usize;
    let o: RefOut<N> = ref_at(v, pos0);

    let mut s = SliceWithPos {
        data: &sink.buf[pos0..n],
        pos: pos0,
    };
    // every fact is computed first and asserted on a branch of its own (check_each!): a
    // failure of one property's assertion never hides another's
    let (mut ok, mut value, mut consumed, mut full_ok, mut agrees) = (true, true, true, true, true);
    let (mut count, mut addr, mut inside, mut nonnull, mut len_ok, mut aligned) = (true, true, true, true, true, true);
    match T::_deserialize_eps_inner(&mut s) {
        Ok(d) => {
            value = T::eps_eq(&d, v);
            consumed = s.pos == n;
            // agreement with full copy on the same bytes
            let mut s2 = SliceWithPos {
                data: &sink.buf[pos0..n],
                pos: pos0,
            };
            match T::_deserialize_full_inner(&mut s2) {
                Ok(f) => agrees = T::eps_eq(&d, &f),
                Err(_) => full_ok = false,
            }
            // borrowed parts against the reference block list
            let mut bs = Borrows::new();
            T::borrows(&d, &mut bs);
            count = bs.n == o.nblocks;
            // universally quantified block index (loop-free)
            let i: usize = sym_index(MAX_BORROWS);
            if i < bs.n && i < o.nblocks && bs.b[i].addr != COPIED {
                let b = bs.b[i];
                let k = o.blocks[i];
                if k.len > 0 {
                    addr = b.addr == base + k.off;
                    inside = b.addr + b.bytes <= base + n;
                }
                nonnull = b.addr != 0;
                len_ok = b.bytes == k.len;
                aligned = b.align != 0 && b.addr % b.align == 0;
            }
        }
        Err(_) => ok = false,
    };
    check_each!(
        (ok, "[C02/eps.ok] eps-copy deserialization of an aligned buffer succeeds"),
        (value, "[C02/eps.value] eps-copy result describes the original"),
        (consumed, "[C07/eps.consumed] eps-copy consumes exactly the bytes written"),
        (full_ok, "[C02/eps.agrees_full] full-copy fails where eps-copy succeeds"),
        (agrees, "[C02/eps.agrees_full] eps-copy describes the full-copy value"),
        (count, "[C03/borrow.count] one borrowed part per zero-copy block"),
        (addr, "[C03/borrow.addr] borrowed part points at the offset where the block was written"),
        (inside, "[C03/borrow.inside] borrowed part covers only bytes of the buffer"),
        (nonnull, "[C03/borrow.nonnull] a borrowed part is a valid (non-null) reference even when it covers no bytes"),
        (len_ok, "[C03/borrow.len] borrowed part has the written length"),
        (aligned, "[C03/borrow.aligned] borrowed part is aligned for its element type")
    );
}
