//! C05: the substitution rule, as type equalities decided by the type checker
//! and re-stated as TypeId obligations (closed terms).

use crate::types::*;
use core::any::TypeId;
use epserde::deser::DeserType;

fn same<A: 'static, B: 'static>() -> bool {
    TypeId::of::<A>() == TypeId::of::<B>()
}

// @h subst_rule props=C05 tier=quick kind=complete vars="closed terms: DeserType of the derive samples" fns="derive:DeserType"
#[kani::proof]
pub fn subst_rule() {
    // parameter-typed fields are substituted
    assert!(same::<DeserType<'static, G2<Vec<u16>, u32>>, G2<&'static [u16], u32>>(), "[C05/subst.param] a parameter that is the type of a field is replaced by its eps-copy type");
    assert!(same::<DeserType<'static, G2<String, Vec<Vec<u8>>>>, G2<&'static str, Vec<&'static [u8]>>>(), "[C05/subst.param] a parameter that is the type of a field is replaced by its eps-copy type");
    assert!(same::<DeserType<'static, GE<Vec<u32>>>, GE<&'static [u32]>>(), "[C05/subst.param.enum] parameters of enum variant fields are substituted");
    assert!(same::<DeserType<'static, GT<Vec<u32>>>, GT<&'static [u32]>>(), "[C05/subst.param.enum.tuple] a parameter that is the type of a tuple-variant field is substituted");
    assert!(same::<DeserType<'static, GS<Vec<u32>>>, GS<&'static [u32]>>(), "[C05/subst.param.enum.struct] a parameter that is the type of a struct-variant field is substituted");
    assert!(same::<DeserType<'static, GTS<Vec<u32>, u16>>, GTS<&'static [u32], u16>>(), "[C05/subst.param.tuple] a parameter that is the type of a tuple-struct field is substituted (other fields mentioning it are fully copied)");
    assert!(same::<DeserType<'static, GB<Vec<u32>>>, GB<&'static [u32]>>(), "[C05/subst.param.bounded] a bounded parameter that is the type of an enum field is substituted");
    assert!(same::<DeserType<'static, GBS<Vec<u32>>>, GBS<&'static [u32]>>(), "[C05/subst.param.bounded] a bounded parameter that is the type of a struct field is substituted");
    // a parameter that is merely mentioned keeps its type (field fully deserialized)
    assert!(same::<DeserType<'static, GM<u16>>, GM<u16>>(), "[C05/subst.mention] a field whose type merely mentions a parameter keeps its type");
    // ... also when the definition comes out of a macro (the field type is a `ty` fragment)
    assert!(same::<DeserType<'static, GMac<Vec<u16>>>, GMac<&'static [u16]>>(), "[C05/subst.param.macro] a parameter-typed field is substituted also in macro-generated definitions");
    assert!(same::<DeserType<'static, GMacE<Vec<u16>>>, GMacE<&'static [u16]>>(), "[C05/subst.param.macro] a parameter-typed field is substituted also in macro-generated definitions");
    // non-generic deep types are their own eps-copy type
    assert!(same::<DeserType<'static, D1>, D1>(), "[C05/subst.none] a deep type without parameters is its own eps-copy type");
    assert!(same::<DeserType<'static, E1>, E1>(), "[C05/subst.none] a deep type without parameters is its own eps-copy type");
    // phantom and const parameters
    assert!(same::<DeserType<'static, GP<String, 2>>, GP<String, 2>>(), "[C05/subst.phantom] phantom parameters are not substituted");
    // zero-copy types: a reference
    assert!(same::<DeserType<'static, Z8>, &'static Z8>(), "[C05/subst.zero] the eps-copy type of a zero-copy type is a reference to it");
    assert!(same::<DeserType<'static, ZU<3>>, &'static ZU<3>>(), "[C05/subst.zero] the eps-copy type of a zero-copy type is a reference to it");
    assert!(same::<DeserType<'static, Vec<Z8>>, &'static [Z8]>(), "[C05/subst.zero.seq] sequences of zero-copy structures become borrowed slices");
}

/// zero-copy enum whose C tag is wider than its fields: both modes, at a start
/// offset that is not a multiple of its native alignment
// @h rt_ze_1 props=C05,C01,C02 tier=quick kind=complete vars="v:ZE (repr(C) zero-copy enum), pos0=1" fns="derive:ZE,ser/helpers.rs:serialize_zero,deser/helpers.rs:deserialize_eps_zero,deser/helpers.rs:deserialize_full_zero"
#[kani::proof]
#[kani::unwind(6)]
pub fn rt_ze_1() {
    use crate::lemmas::*;
    use crate::sinks::*;
    use epserde::deser::{DeserializeInner, ReaderWithPos, ReadNoStd, SliceWithPos};
    let k: u8 = kani::any();
    let v = match k {
        0 => ZE::A,
        1 => ZE::B(kani::any()),
        _ => ZE::C { x: kani::any(), y: kani::any() },
    };
    let mut sink = ArrSink::<32>::new();
    let (r, _) = ser_at(&v, 1, &mut sink);
    assert!(r.is_ok(), "[C01/ser.ok] serialization into an infallible sink succeeds");
    let n = sink.len;
    let mut s = SliceWithPos { data: &sink.buf[1..n], pos: 1 };
    match <ZE>::_deserialize_eps_inner(&mut s) {
        Ok(d) => {
            assert!(*d == v, "[C05/rt.eps] the derived zero-copy enum round-trips in eps mode");
            assert!(d as *const ZE as usize % core::mem::align_of::<ZE>() == 0, "[C05/rt.eps.aligned] the eps-copy reference is aligned for the type");
            assert!(s.pos == n, "[C05/rt.eps.consumed] eps-copy consumes exactly the bytes written");
        }
        Err(e) => { core::mem::forget(e); assert!(false, "[C05/rt.eps.ok] eps-copy of the derived zero-copy enum succeeds on an aligned buffer") }
    };
    let mut src: &[u8] = &sink.buf[..n];
    let mut rd = ReaderWithPos::new(&mut src);
    let mut one = [0u8; 1];
    let _ = rd.read_exact(&mut one);
    match <ZE>::_deserialize_full_inner(&mut rd) {
        Ok(d) => assert!(d == v, "[C05/rt.full] the derived zero-copy enum round-trips in full-copy mode"),
        Err(e) => { core::mem::forget(e); assert!(false, "[C05/rt.full.ok] full-copy of the derived zero-copy enum succeeds") }
    };
}
