//! C05: the substitution rule, as type equalities decided by the type checker
//! and re-stated as TypeId obligations (closed terms).

use crate::types::*;
use core::any::TypeId;
use epserde::deser::DeserType;

fn same<A: 'static, B: 'static>() -> bool {
    TypeId::of::<A>() == TypeId::of::<B>()
}

// @h subst_rule props=C05 tier=quick kind=complete vars="closed terms: DeserType of the derive samples" fns="derive:DeserType"
#[kani::proof]
pub fn subst_rule() {
    // parameter-typed fields are substituted
    assert!(same::<DeserType<'static, G2<Vec<u16>, u32>>, G2<&'static [u16], u32>>(), "[C05/subst.param] a parameter that is the type of a field is replaced by its eps-copy type");
    assert!(same::<DeserType<'static, G2<String, Vec<Vec<u8>>>>, G2<&'static str, Vec<&'static [u8]>>>(), "[C05/subst.param] a parameter that is the type of a field is replaced by its eps-copy type");
    assert!(same::<DeserType<'static, GE<Vec<u32>>>, GE<&'static [u32]>>(), "[C05/subst.param.enum] parameters of enum variant fields are substituted");
    // a parameter that is merely mentioned keeps its type (field fully deserialized)
    assert!(same::<DeserType<'static, GM<u16>>, GM<u16>>(), "[C05/subst.mention] a field whose type merely mentions a parameter keeps its type");
    // non-generic deep types are their own eps-copy type
    assert!(same::<DeserType<'static, D1>, D1>(), "[C05/subst.none] a deep type without parameters is its own eps-copy type");
    assert!(same::<DeserType<'static, E1>, E1>(), "[C05/subst.none] a deep type without parameters is its own eps-copy type");
    // phantom and const parameters
    assert!(same::<DeserType<'static, GP<String, 2>>, GP<String, 2>>(), "[C05/subst.phantom] phantom parameters are not substituted");
    // zero-copy types: a reference
    assert!(same::<DeserType<'static, Z8>, &'static Z8>(), "[C05/subst.zero] the eps-copy type of a zero-copy type is a reference to it");
    assert!(same::<DeserType<'static, ZU<3>>, &'static ZU<3>>(), "[C05/subst.zero] the eps-copy type of a zero-copy type is a reference to it");
    assert!(same::<DeserType<'static, Vec<Z8>>, &'static [Z8]>(), "[C05/subst.zero.seq] sequences of zero-copy structures become borrowed slices");
}
