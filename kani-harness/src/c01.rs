use crate::sinks::*;
use epserde::prelude::*;
use epserde::ser::{WriterWithPos, WriteNoStd};
use core::ops::ControlFlow;

#[kani::proof]
fn t_opt_u32() {
    let v: Option<u32> = kani::any();
    let mut sink = ArrSink::<16>::new();
    let mut w = WriterWithPos::new(&mut sink);
    v._serialize_inner(&mut w).unwrap();
    let n = sink.len;
    let mut s = SliceWithPos::new(&sink.buf[..n]);
    let d = <Option<u32>>::_deserialize_full_inner(&mut s).unwrap();
    assert!(d == v, "[C01/rt_full.value] Option<u32>");
}
#[kani::proof]
fn t_cf() {
    let v: ControlFlow<u8,u16> = if kani::any() { ControlFlow::Break(kani::any()) } else { ControlFlow::Continue(kani::any()) };
    let mut sink = ArrSink::<16>::new();
    let mut w = WriterWithPos::new(&mut sink);
    v._serialize_inner(&mut w).unwrap();
    let n = sink.len;
    let mut s = SliceWithPos::new(&sink.buf[..n]);
    let d = <ControlFlow<u8,u16>>::_deserialize_full_inner(&mut s);
    assert!(d.is_ok(), "[C01/rt_full.ok] ControlFlow");
    assert!(d.unwrap() == v, "[C01/rt_full.value] ControlFlow");
}
