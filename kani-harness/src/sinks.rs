//! Sinks and sources used by the lemma harnesses.
//!
//! None of these is part of the trusted base in the sense of "assumed
//! contract": they are the *environment* the real epserde code is run in, and
//! their behaviour is what the harness quantifies over (failure position,
//! chunk sizes, ...).

use epserde::deser;
use epserde::ser;

/// Fixed-capacity in-memory sink. The storage is 128-byte aligned so that the
/// address residue of `&buf[k]` modulo any unit up to 128 is exactly `k`.
#[repr(C, align(128))]
pub struct ArrSink<const N: usize> {
    pub buf: [u8; N],
    pub len: usize,
    pub flushes: usize,
}

impl<const N: usize> ArrSink<N> {
    pub fn new() -> Self {
        Self {
            buf: [0xAA; N],
            len: 0,
            flushes: 0,
        }
    }
    pub fn bytes(&self) -> &[u8] {
        &self.buf[..self.len]
    }
}

impl<const N: usize> ser::WriteNoStd for ArrSink<N> {
    fn write_all(&mut self, b: &[u8]) -> ser::Result<()> {
        // A too-small sink is a harness sizing error, not a property failure.
        assert!(self.len + b.len() <= N, "[harness] ArrSink too small");
        if b.len() == 1 {
            // padding is written one byte at a time: keep that path free of memcpy
            self.buf[self.len] = b[0];
        } else {
            self.buf[self.len..self.len + b.len()].copy_from_slice(b);
        }
        self.len += b.len();
        Ok(())
    }
    fn flush(&mut self) -> ser::Result<()> {
        self.flushes += 1;
        Ok(())
    }
}

/// A sink that fails when the stream reaches byte position `fail_at`.
///
/// * a `write_all` that would cross `fail_at` accepts `partial` bytes of the
///   chunk first when `accept_partial` is set (as `io::Write::write_all` does
///   over a device that fills up), then returns `Err`;
/// * once failed it keeps failing (`sticky`), and records every call made
///   after the failure in `calls_after_fail`;
/// * `flush` fails when `fail_flush` is set.
#[repr(C, align(128))]
pub struct FailingSink<const N: usize> {
    pub buf: [u8; N],
    pub len: usize,
    pub fail_at: usize,
    pub accept_partial: bool,
    pub fail_flush: bool,
    pub failed: bool,
    pub calls_after_fail: usize,
    pub flushes: usize,
}

impl<const N: usize> FailingSink<N> {
    pub fn new(fail_at: usize, accept_partial: bool, fail_flush: bool) -> Self {
        Self {
            buf: [0xAA; N],
            len: 0,
            fail_at,
            accept_partial,
            fail_flush,
            failed: false,
            calls_after_fail: 0,
            flushes: 0,
        }
    }
}

impl<const N: usize> ser::WriteNoStd for FailingSink<N> {
    fn write_all(&mut self, b: &[u8]) -> ser::Result<()> {
        if self.failed {
            self.calls_after_fail += 1;
            return Err(ser::Error::WriteError);
        }
        assert!(self.len + b.len() <= N, "[harness] FailingSink too small");
        if self.len + b.len() > self.fail_at {
            let take = if self.accept_partial {
                self.fail_at - self.len
            } else {
                0
            };
            self.buf[self.len..self.len + take].copy_from_slice(&b[..take]);
            self.len += take;
            self.failed = true;
            return Err(ser::Error::WriteError);
        }
        if b.len() == 1 {
            // padding is written one byte at a time: keep that path free of memcpy
            self.buf[self.len] = b[0];
        } else {
            self.buf[self.len..self.len + b.len()].copy_from_slice(b);
        }
        self.len += b.len();
        Ok(())
    }
    fn flush(&mut self) -> ser::Result<()> {
        self.flushes += 1;
        if self.fail_flush {
            self.failed = true;
            Err(ser::Error::WriteError)
        } else {
            Ok(())
        }
    }
}

/// An `io::Write` that shortens writes and injects `Interrupted`, used through
/// epserde's blanket `impl<W: Write> WriteNoStd for W`. `plan` is consumed one
/// entry per `write` call: `0` means "return Interrupted", `k > 0` means
/// "accept at most k bytes". When the plan is exhausted every write accepts
/// one byte.
pub struct ShortWriter<const N: usize, const P: usize> {
    pub buf: [u8; N],
    pub len: usize,
    pub plan: [u8; P],
    pub step: usize,
}

impl<const N: usize, const P: usize> ShortWriter<N, P> {
    pub fn new(plan: [u8; P]) -> Self {
        Self {
            buf: [0xAA; N],
            len: 0,
            plan,
            step: 0,
        }
    }
}

impl<const N: usize, const P: usize> std::io::Write for ShortWriter<N, P> {
    fn write(&mut self, b: &[u8]) -> std::io::Result<usize> {
        let k = if self.step < P {
            let k = self.plan[self.step];
            self.step += 1;
            k as usize
        } else {
            1
        };
        if k == 0 {
            return Err(std::io::Error::from(std::io::ErrorKind::Interrupted));
        }
        let take = if b.len() < k { b.len() } else { k };
        assert!(self.len + take <= N, "[harness] ShortWriter too small");
        self.buf[self.len..self.len + take].copy_from_slice(&b[..take]);
        self.len += take;
        Ok(take)
    }
    fn flush(&mut self) -> std::io::Result<()> {
        Ok(())
    }
}

/// An `io::Read` over a byte slice that fragments reads (`plan[i]` = maximum
/// bytes returned by the i-th call, `0` = `Interrupted`), and fails hard
/// (`ErrorKind::Other`) once `fail_at` bytes have been delivered.
pub struct ChunkReader<'a, const P: usize> {
    pub data: &'a [u8],
    pub off: usize,
    pub plan: [u8; P],
    pub step: usize,
    pub fail_at: usize,
}

impl<'a, const P: usize> ChunkReader<'a, P> {
    pub fn new(data: &'a [u8], plan: [u8; P], fail_at: usize) -> Self {
        Self {
            data,
            off: 0,
            plan,
            step: 0,
            fail_at,
        }
    }
}

impl<const P: usize> std::io::Read for ChunkReader<'_, P> {
    fn read(&mut self, b: &mut [u8]) -> std::io::Result<usize> {
        let k = if self.step < P {
            let k = self.plan[self.step];
            self.step += 1;
            k as usize
        } else {
            1
        };
        if k == 0 {
            return Err(std::io::Error::from(std::io::ErrorKind::Interrupted));
        }
        if self.off >= self.fail_at {
            return Err(std::io::Error::from(std::io::ErrorKind::Other));
        }
        let mut take = if b.len() < k { b.len() } else { k };
        let left = self.data.len() - self.off;
        if take > left {
            take = left;
        }
        if take > self.fail_at - self.off {
            take = self.fail_at - self.off;
        }
        b[..take].copy_from_slice(&self.data[self.off..self.off + take]);
        self.off += take;
        Ok(take)
    }
}

/// A `ReadNoStd` that hands out the bytes of a slice and fails (ReadError)
/// for any request crossing `fail_at`. Cheaper for CBMC than `ChunkReader`.
pub struct FailingReader<'a> {
    pub data: &'a [u8],
    pub off: usize,
    pub fail_at: usize,
}

impl deser::ReadNoStd for FailingReader<'_> {
    fn read_exact(&mut self, b: &mut [u8]) -> deser::Result<()> {
        if self.off + b.len() > self.fail_at || self.off + b.len() > self.data.len() {
            return Err(deser::Error::ReadError);
        }
        b.copy_from_slice(&self.data[self.off..self.off + b.len()]);
        self.off += b.len();
        Ok(())
    }
}

/// A reader that refuses one request (the first one that would cross `fail_at`)
/// and serves every later one: a transient failure.
pub struct OnceFailingReader<'a> {
    pub data: &'a [u8],
    pub off: usize,
    pub fail_at: usize,
    pub failed: bool,
}

impl deser::ReadNoStd for OnceFailingReader<'_> {
    fn read_exact(&mut self, b: &mut [u8]) -> deser::Result<()> {
        if !self.failed && self.off + b.len() > self.fail_at {
            self.failed = true;
            return Err(deser::Error::ReadError);
        }
        if self.off + b.len() > self.data.len() {
            return Err(deser::Error::ReadError);
        }
        b.copy_from_slice(&self.data[self.off..self.off + b.len()]);
        self.off += b.len();
        Ok(())
    }
}

/// Like `ArrSink`, but the first `write_all` (the stream prefix that moves the
/// writer to its start offset) is counted and not stored, so the payload sits
/// at concrete buffer offsets even when the start offset is symbolic.
#[repr(C, align(128))]
pub struct CountingSink<const N: usize> {
    pub buf: [u8; N],
    pub len: usize,
    pub skipped: usize,
    pub prefix_done: bool,
}
impl<const N: usize> CountingSink<N> {
    pub fn new() -> Self {
        Self { buf: [0xAA; N], len: 0, skipped: 0, prefix_done: false }
    }
}
impl<const N: usize> ser::WriteNoStd for CountingSink<N> {
    fn write_all(&mut self, b: &[u8]) -> ser::Result<()> {
        if !self.prefix_done {
            self.prefix_done = true;
            self.skipped = b.len();
            return Ok(());
        }
        assert!(self.len + b.len() <= N, "[harness] CountingSink too small");
        if b.len() == 1 {
            // padding is written one byte at a time: keep that path free of memcpy
            self.buf[self.len] = b[0];
        } else {
            self.buf[self.len..self.len + b.len()].copy_from_slice(b);
        }
        self.len += b.len();
        Ok(())
    }
    fn flush(&mut self) -> ser::Result<()> {
        Ok(())
    }
}

/// `ReadNoStd` source over a byte slice whose first `read_exact` (the stream
/// prefix that moves a `ReaderWithPos` to its start offset) is counted but
/// delivers nothing (the destination stays zero).
pub struct CountingSrc<'a> {
    pub data: &'a [u8],
    pub off: usize,
    pub prefix_done: bool,
}
impl<'a> CountingSrc<'a> {
    pub fn new(data: &'a [u8]) -> Self {
        Self { data, off: 0, prefix_done: false }
    }
}
impl deser::ReadNoStd for CountingSrc<'_> {
    fn read_exact(&mut self, b: &mut [u8]) -> deser::Result<()> {
        if !self.prefix_done {
            self.prefix_done = true;
            return Ok(());
        }
        if b.len() > self.data.len() - self.off {
            return Err(deser::Error::ReadError);
        }
        b.copy_from_slice(&self.data[self.off..self.off + b.len()]);
        self.off += b.len();
        Ok(())
    }
}

/// An `io::Write` with a fixed capacity that, like `&mut [u8]` and `Cursor<&mut [u8]>`,
/// accepts what fits and then *rejects by returning `Ok(0)`* (std's `write_all` turns
/// that into `ErrorKind::WriteZero`).
pub struct FullWriter<const N: usize> {
    pub buf: [u8; N],
    pub len: usize,
    pub cap: usize,
}
impl<const N: usize> FullWriter<N> {
    pub fn new(cap: usize) -> Self {
        Self { buf: [0xAA; N], len: 0, cap }
    }
}
impl<const N: usize> std::io::Write for FullWriter<N> {
    fn write(&mut self, b: &[u8]) -> std::io::Result<usize> {
        let room = self.cap - self.len;
        let take = if b.len() < room { b.len() } else { room };
        self.buf[self.len..self.len + take].copy_from_slice(&b[..take]);
        self.len += take;
        Ok(take)
    }
    fn flush(&mut self) -> std::io::Result<()> {
        Ok(())
    }
}
