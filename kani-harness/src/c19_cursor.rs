//! C19: the aligned cursor behaves like std's `Cursor<Vec<u8>>`.
//!
//! Per-operation lemmas from an arbitrary reachable state. A state is built
//! through the public API as `write_all(content); set_position(p)`: every
//! state satisfying the representation invariant (length, zero tail up to the
//! capacity, capacity a whole number of units) is reached this way, so
//! induction over the invariant covers histories of any length. The oracle is
//! the real `std::io::Cursor<Vec<u8>>` run on the same state and operation.

use crate::lemmas::*;
use epserde::utils::AlignedCursor;
use maligned::{A16, A64};
use std::io::{Cursor, Read, Seek, SeekFrom, Write};

const MAXLEN: usize = 3;

fn build<T: maligned::Alignment>(content: &[u8; MAXLEN], len: usize, pos: usize) -> (AlignedCursor<T>, Cursor<Vec<u8>>) {
    let mut a = AlignedCursor::<T>::new();
    let _ = a.write(&content[..len]);
    a.set_position(pos);
    let mut c = Cursor::new(Vec::new());
    let _ = c.write(&content[..len]);
    c.set_position(pos as u64);
    (a, c)
}

fn same_state<T: maligned::Alignment>(a: &mut AlignedCursor<T>, c: &Cursor<Vec<u8>>) {
    assert!(a.len() == c.get_ref().len(), "[C19/len] same length as the standard cursor");
    assert!(a.position() as u64 == c.position(), "[C19/pos] same position as the standard cursor");
    let n = a.len();
    let i = sym_index(MAXLEN + 48);
    if i < n {
        assert!(a.as_bytes()[i] == c.get_ref()[i], "[C19/content] same contents as the standard cursor");
    }
    assert!(a.as_bytes().as_ptr() as usize % core::mem::align_of::<T>() == 0, "[C19/aligned] storage starts at an address aligned to the alignment type");
}

fn same_io(a: &std::io::Result<usize>, c: &std::io::Result<usize>) -> bool {
    match (a, c) {
        (Ok(x), Ok(y)) => x == y,
        (Err(_), Err(_)) => true,
        _ => false,
    }
}

/// `write` against the semantics of `Cursor<Vec<u8>>::write`, written as a
/// model over (content, len, pos): the data lands at `pos`, the length becomes
/// max(len, pos + w) (also for an empty write: the standard cursor pads up to
/// the position), the gap [len, pos) reads as zero, everything else is
/// unchanged, the position advances by w. (Checked against the real
/// `std::io::Cursor` by `cursor_write_std_*`.)
macro_rules! cursor_write {
    ($name:ident, $t:ty, $len:expr, $maxpos:expr, $maxw:expr, $unw:expr) => {
        #[kani::proof]
        #[kani::unwind($unw)]
        pub fn $name() {
            let content: [u8; MAXLEN] = kani::any();
            let len: usize = $len;
            let pos: usize = kani::any();
            kani::assume(pos <= $maxpos);
            let mut a = AlignedCursor::<$t>::new();
            let _ = a.write(&content[..len]);
            a.set_position(pos);
            let data: [u8; $maxw] = kani::any();
            let w: usize = kani::any();
            kani::assume(w <= $maxw);
            let ra = a.write(&data[..w]);
            assert!(matches!(ra, Ok(n) if n == w), "[C19/write.ret] write accepts the whole buffer, like the standard cursor");
            let new_len = if pos + w > len { pos + w } else { len };
            assert!(a.len() == new_len, "[C19/len] same length as the standard cursor (max(len, pos + w), also for an empty write)");
            assert!(a.position() == pos + w, "[C19/pos] same position as the standard cursor");
            let i = sym_index($maxpos + $maxw + 1);
            if i < new_len {
                let want = if i >= pos && i < pos + w { data[i - pos] } else if i < len { content[i] } else { 0 };
                assert!(a.as_bytes()[i] == want, "[C19/content] same contents as the standard cursor (gap zero-filled)");
            }
            assert!(a.as_bytes().as_ptr() as usize % core::mem::align_of::<$t>() == 0, "[C19/aligned] storage starts at an address aligned to the alignment type");
            core::mem::forget(ra);
            // representation invariant that makes the per-operation lemmas compose to
            // histories of any length: the storage covers the contents and is zero
            // past them (every start state built above satisfies it)
            let unit = core::mem::size_of::<$t>();
            let (store, l) = a.into_parts();
            assert!(l == new_len, "[C19/len] into_parts reports the length");
            assert!(store.len() * unit >= new_len, "[C19/invariant.covers] the storage covers the contents");
            let j = sym_index($maxpos + $maxw + 1 + 64);
            if j >= new_len && j < store.len() * unit {
                let raw = unsafe { core::slice::from_raw_parts(store.as_ptr() as *const u8, store.len() * unit) };
                assert!(raw[j] == 0, "[C19/invariant.zero_tail] storage past the contents is zero (a later write past the end relies on it for the gap)");
            }
            kani::cover!(pos > len && w > 0, "[cover] write past the end (gap) reached");
            kani::cover!(pos > len && w == 0, "[cover] empty write past the end reached");
        }
    };
}
macro_rules! cursor_read {
    ($name:ident, $t:ty, $maxpos:expr, $maxr:expr, $unw:expr) => {
        #[kani::proof]
        #[kani::unwind($unw)]
        pub fn $name() {
            let content: [u8; MAXLEN] = kani::any();
            let len: usize = kani::any();
            let pos: usize = kani::any();
            kani::assume(len <= MAXLEN && pos <= $maxpos);
            let mut a = AlignedCursor::<$t>::new();
            let _ = a.write(&content[..len]);
            a.set_position(pos);
            let mut ba = [0xEEu8; $maxr];
            let r: usize = kani::any();
            kani::assume(r <= $maxr);
            let ra = a.read(&mut ba[..r]);
            let avail = if pos < len { len - pos } else { 0 };
            let want = if r < avail { r } else { avail };
            assert!(matches!(ra, Ok(n) if n == want), "[C19/read.ret] read returns min(requested, remaining), like the standard cursor");
            let i = sym_index($maxr);
            if i < want {
                assert!(ba[i] == content[pos + i], "[C19/read.data] read delivers the bytes at the position");
            } else {
                assert!(ba[i] == 0xEE, "[C19/read.frame] read does not touch the rest of the buffer");
            }
            assert!(a.position() == pos + want, "[C19/pos] same position as the standard cursor");
            assert!(a.len() == len, "[C19/len] read does not change the length");
            core::mem::forget(ra);
        }
    };
}
/// the model above is the standard cursor's: the same operation on the real
/// `std::io::Cursor<Vec<u8>>` (small state: this side is the expensive one)
macro_rules! cursor_write_std {
    ($name:ident, $maxpos:expr, $maxw:expr, $unw:expr) => {
        #[kani::proof]
        #[kani::unwind($unw)]
        pub fn $name() {
            let content: [u8; 2] = kani::any();
            let len: usize = kani::any();
            let pos: usize = kani::any();
            kani::assume(len <= 2 && pos <= $maxpos);
            let mut c = Cursor::new(Vec::new());
            let _ = c.write(&content[..len]);
            c.set_position(pos as u64);
            let data: [u8; $maxw] = kani::any();
            let w: usize = kani::any();
            kani::assume(w <= $maxw);
            let rc = c.write(&data[..w]);
            assert!(matches!(rc, Ok(n) if n == w), "[harness] model of Cursor::write: return value");
            let new_len = if pos + w > len { pos + w } else { len };
            assert!(c.get_ref().len() == new_len, "[harness] model of Cursor::write: length");
            assert!(c.position() == (pos + w) as u64, "[harness] model of Cursor::write: position");
            let i = sym_index($maxpos + $maxw + 1);
            if i < new_len {
                let want = if i >= pos && i < pos + w { data[i - pos] } else if i < len { content[i] } else { 0 };
                assert!(c.get_ref()[i] == want, "[harness] model of Cursor::write: contents");
            }
            core::mem::forget(rc);
        }
    };
}
macro_rules! cursor_seek {
    ($name:ident, $t:ty) => {
        #[kani::proof]
        #[kani::unwind(4)]
        pub fn $name() {
            let content: [u8; MAXLEN] = kani::any();
            let len: usize = kani::any();
            let pos: usize = kani::any();
            kani::assume(len <= MAXLEN);
            let (mut a, mut c) = build::<$t>(&content, len, pos);
            let which: u8 = kani::any();
            let style = if which == 0 {
                SeekFrom::Start(kani::any())
            } else if which == 1 {
                SeekFrom::End(kani::any())
            } else {
                SeekFrom::Current(kani::any())
            };
            let ra = a.seek(style);
            let rc = c.seek(style);
            match (&ra, &rc) {
                (Ok(x), Ok(y)) => assert!(x == y, "[C19/seek.ret] seek returns the position the standard cursor returns"),
                (Err(_), Err(_)) => {}
                _ => assert!(false, "[C19/seek.err] seek fails exactly when the standard cursor fails"),
            }
            assert!(a.position() as u64 == c.position(), "[C19/pos] same position as the standard cursor");
            assert!(a.len() == c.get_ref().len(), "[C19/len] same length as the standard cursor");
            let sa = a.stream_position();
            assert!(matches!(sa, Ok(p) if p == c.position()), "[C19/stream_position] stream_position reports the position");
            core::mem::forget((ra, rc, sa));
        }
    };
}

// @h cursor_seek_a16 props=C19 tier=quick kind=complete vars="state: content len<=3, any position (full usize); SeekFrom::{Start,End,Current} with full u64/i64 offsets" fns="utils/aligned_cursor.rs:seek,utils/aligned_cursor.rs:set_position,utils/aligned_cursor.rs:position"
cursor_seek!(cursor_seek_a16, A16);
// @h cursor_write_a16_empty props=C19 tier=quick kind=bounded bound="empty cursor, position<=20, write<=2 bytes" vars="pos, data, w (incl. the empty write)" fns="utils/aligned_cursor.rs:write"
cursor_write!(cursor_write_a16_empty, A16, 0, 20, 2, 5);
// @h cursor_write_a16 props=C19 tier=quick kind=bounded bound="3 bytes of content, position<=20, write<=2 bytes" vars="content, pos, data, w (incl. the empty write)" fns="utils/aligned_cursor.rs:write"
cursor_write!(cursor_write_a16, A16, 3, 20, 2, 5);
// @h cursor_write_a16_far props=C19 tier=thorough kind=bounded bound="3 bytes of content, position<=40, write<=4 bytes" vars="content, pos, data, w" fns="utils/aligned_cursor.rs:write"
cursor_write!(cursor_write_a16_far, A16, 3, 40, 4, 5);
// @h cursor_read_a16 props=C19 tier=quick kind=bounded bound="content<=3 bytes, position<=20, read<=5 bytes" vars="state (content, len, pos), r" fns="utils/aligned_cursor.rs:read"
cursor_read!(cursor_read_a16, A16, 20, 5, 5);
// @h cursor_write_std_model props=C19 tier=thorough kind=bounded bound="content<=2 bytes, position<=4, write<=2 bytes" vars="validates the write model against the real std::io::Cursor<Vec<u8>>" fns="std::io::Cursor (oracle)"
cursor_write_std!(cursor_write_std_model, 4, 2, 6);
// (the write lemma over 64-byte units exceeds the memory limit: dropped; seek is checked for A64)
// @h cursor_seek_a64 props=C19 tier=thorough kind=complete vars="as cursor_seek_a16 with 64-byte units" fns="utils/aligned_cursor.rs:seek"
cursor_seek!(cursor_seek_a64, A64);
