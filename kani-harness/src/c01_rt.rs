//! Round-trip lemmas (C01, C02, C03, C06, C07) instantiated per type.
//!
//! `// @h` lines are read by /verif/check: name, properties served, tier,
//! kind (complete = loop-free or type-constant-bounded loops over full-domain
//! inputs; bounded = sequence length bounded as stated), bound, variables.

use crate::lemmas::*;
use crate::refenc::*;
use crate::types::*;
use core::marker::PhantomData;
use core::num::*;
use core::ops::{Bound, ControlFlow};

/// several fixed-size types under one harness (shared symbolic start offset)
macro_rules! rt_full_group {
    ($name:ident, $unw:expr, [$($t:ty),*]) => {
        #[kani::proof]
        #[kani::unwind($unw)]
        pub fn $name() {
            let pos0: usize = kani::any();
            kani::assume(pos0 < MAX_PREFIX);
            $( { let v = <$t as Sym>::sym(0); lemma_rt_full::<$t, 32>(&v, pos0); } )*
            kani::cover!(true, "[cover] end of harness reached");
        }
    };
}
macro_rules! rt_full_str {
    ($name:ident, $t:ty, $bound:expr, $cap:expr, $unw:expr) => {
        #[kani::proof]
        #[kani::unwind($unw)]
        #[kani::stub(std::string::String::from_utf8, crate::lemmas::stub_from_utf8)]
        pub fn $name() {
            let v = <$t as Sym>::sym($bound);
            let pos0: usize = kani::any();
            kani::assume(pos0 < MAX_PREFIX);
            lemma_rt_full::<$t, $cap>(&v, pos0);
            kani::cover!(true, "[cover] end of harness reached");
        }
    };
}
macro_rules! rt_full {
    ($name:ident, $t:ty, $bound:expr, $cap:expr, $unw:expr) => {
        #[kani::proof]
        #[kani::unwind($unw)]
        pub fn $name() {
            let v = <$t as Sym>::sym($bound);
            let pos0: usize = kani::any();
            kani::assume(pos0 < MAX_PREFIX);
            lemma_rt_full::<$t, $cap>(&v, pos0);
            kani::cover!(true, "[cover] end of harness reached");
        }
    };
}
/// placed variants take a concrete start offset
macro_rules! rt_placed {
    ($name:ident, $t:ty, $bound:expr, $cap:expr, $unw:expr, $pos0:expr) => {
        #[kani::proof]
        #[kani::unwind($unw)]
        pub fn $name() {
            let v = <$t as Sym>::sym($bound);
            lemma_rt_full_placed::<$t, $cap>(&v, $pos0);
            kani::cover!(true, "[cover] end of harness reached");
        }
    };
}
macro_rules! rt_eps_unused {
    ($name:ident, $t:ty, $bound:expr, $cap:expr, $unw:expr, $pos0:expr) => {
        #[kani::proof]
        #[kani::unwind($unw)]
        pub fn $name() {
            let v = <$t as Sym>::sym($bound);
            lemma_rt_eps::<$t, $cap>(&v, $pos0);
            kani::cover!(true, "[cover] end of harness reached");
        }
    };
}


// ---------------------------------------------------------------- full copy, fixed-size types (complete)

// @h rt_full_uints props=C01,C06,C07 tier=quick kind=complete vars="v:u8|u16|u32|u64|u128|usize (full domain), pos0<16" fns="impls/prim.rs:impl_prim_ser_des,ser/write.rs:WriterWithPos::write_all,deser/reader_with_pos.rs:ReaderWithPos::read_exact"
rt_full_group!(rt_full_uints, 3, [u8, u16, u32, u64, u128, usize]);
// @h rt_full_sints props=C01,C06,C07 tier=quick kind=complete vars="v:i8|i16|i32|i64|i128|isize (full domain), pos0<16" fns="impls/prim.rs:impl_prim_ser_des"
rt_full_group!(rt_full_sints, 3, [i8, i16, i32, i64, i128, isize]);
// @h rt_full_floats props=C01,C06,C07 tier=quick kind=complete vars="v:f32|f64 (all bit patterns incl. NaN payloads), pos0<16" fns="impls/prim.rs:impl_prim_ser_des"
rt_full_group!(rt_full_floats, 3, [f32, f64]);
// @h rt_full_nonzero_u props=C01,C06,C07 tier=quick kind=complete vars="v:NonZeroU8..U128,Usize, pos0<16" fns="impls/prim.rs:impl_nonzero_ser_des"
rt_full_group!(rt_full_nonzero_u, 3, [NonZeroU8, NonZeroU16, NonZeroU32, NonZeroU64, NonZeroU128, NonZeroUsize]);
// @h rt_full_nonzero_i props=C01,C06,C07 tier=quick kind=complete vars="v:NonZeroI8..I128,Isize, pos0<16" fns="impls/prim.rs:impl_nonzero_ser_des"
rt_full_group!(rt_full_nonzero_i, 3, [NonZeroI8, NonZeroI16, NonZeroI32, NonZeroI64, NonZeroI128, NonZeroIsize]);
// @h rt_full_misc props=C01,C06,C07 tier=quick kind=complete vars="v:bool|char|()|PhantomData<u32>, pos0<16" fns="impls/prim.rs:bool,impls/prim.rs:char,impls/prim.rs:unit,impls/prim.rs:PhantomData"
rt_full_group!(rt_full_misc, 3, [bool, char, (), PhantomData<u32>]);
// @h rt_full_opt_u32 props=C01,C06,C07,C15 tier=quick kind=complete vars="v:Option<u32>, pos0<16" fns="impls/prim.rs:Option"
rt_full!(rt_full_opt_u32, Option<u32>, 0, 32, 3);
// @h rt_full_opt_opt_u16 props=C01,C06,C07,C15 tier=quick kind=complete vars="v:Option<Option<u16>>, pos0<16" fns="impls/prim.rs:Option"
rt_full!(rt_full_opt_opt_u16, Option<Option<u16>>, 0, 32, 3);
// @h rt_full_bound_u16 props=C01,C06,C07,C15 tier=quick kind=complete vars="v:Bound<u16>, pos0<16" fns="impls/stdlib.rs:Bound"
rt_full!(rt_full_bound_u16, Bound<u16>, 0, 32, 3);
// @h rt_full_cf_u8_u16 props=C01,C06,C07,C15 tier=quick kind=complete vars="v:ControlFlow<u8,u16>, pos0<16" fns="impls/stdlib.rs:ControlFlow"
rt_full!(rt_full_cf_u8_u16, ControlFlow<u8, u16>, 0, 32, 3);
// @h rt_full_ranges props=C01,C06,C07 tier=quick kind=complete vars="v:Range|RangeFrom|RangeTo|RangeToInclusive|RangeInclusive(non-exhausted)<u32>|RangeFull, pos0<16" fns="impls/stdlib.rs:impl_ranges"
rt_full_group!(rt_full_ranges, 3, [core::ops::Range<u32>, core::ops::RangeFrom<u32>, core::ops::RangeTo<u32>, core::ops::RangeToInclusive<u32>, core::ops::RangeInclusive<u32>, core::ops::RangeFull]);
// @h rt_full_tuple1 props=C01,C06,C07 tier=quick kind=complete vars="v:(u32,), pos0<16" fns="impls/tuple.rs:impl_tuples,ser/helpers.rs:serialize_zero,deser/helpers.rs:deserialize_full_zero"
rt_full!(rt_full_tuple1, (u32,), 0, 32, 5);
// @h rt_full_tuple3 props=C01,C06,C07 tier=quick kind=complete vars="v:(u64,u64,u64), pos0<16" fns="impls/tuple.rs:impl_tuples,ser/helpers.rs:serialize_zero,deser/helpers.rs:deserialize_full_zero"
rt_full!(rt_full_tuple3, (u64, u64, u64), 0, 48, 9);
// @h rt_full_tuple12 props=C01,C06,C07 tier=thorough kind=complete vars="v:(u8 x12), pos0<16" fns="impls/tuple.rs:impl_tuples"
rt_full!(rt_full_tuple12, (u8, u8, u8, u8, u8, u8, u8, u8, u8, u8, u8, u8), 0, 32, 3);
// @h rt_full_arr_u32_3 props=C01,C06,C07 tier=quick kind=complete vars="v:[u32;3], pos0<16" fns="impls/array.rs:DeserializeHelper<Zero>,impls/array.rs:SerializeHelper<Zero>"
rt_full!(rt_full_arr_u32_3, [u32; 3], 0, 32, 5);
// @h rt_full_arr_z8_2 props=C01,C06,C07 tier=quick kind=complete vars="v:[Z8;2] (element size 8 != alignment 4), pos0<16" fns="impls/array.rs:DeserializeHelper<Zero>,impls/array.rs:SerializeHelper<Zero>"
rt_full!(rt_full_arr_z8_2, [Z8; 2], 0, 48, 5);
// @h rt_full_arr_pair_2 props=C01,C06,C07 tier=quick kind=complete vars="v:[(u16,u16);2] (element size 4 != alignment 2), pos0<16" fns="impls/array.rs:DeserializeHelper<Zero>,impls/tuple.rs"
rt_full!(rt_full_arr_pair_2, [(u16, u16); 2], 0, 32, 5);
// @h rt_full_arr_opt_2 props=C01,C06,C07 tier=quick kind=complete vars="v:[Option<u8>;2], pos0<16" fns="impls/array.rs:DeserializeHelper<Deep>,impls/array.rs:SerializeHelper<Deep>"
rt_full!(rt_full_arr_opt_2, [Option<u8>; 2], 0, 32, 4);
// @h rt_full_arr_u16_0 props=C01,C06,C07 tier=quick kind=complete vars="v:[u16;0], pos0<16" fns="impls/array.rs:DeserializeHelper<Zero>"
rt_full!(rt_full_arr_u16_0, [u16; 0], 0, 32, 3);
// @h rt_full_arr_unit_2 props=C01,C06,C07 tier=quick kind=complete vars="v:[();2], pos0<16" fns="impls/array.rs:DeserializeHelper<Zero>,impls/prim.rs:unit MaxSizeOf"
rt_full!(rt_full_arr_unit_2, [(); 2], 0, 32, 3);

// ---------------------------------------------------------------- derived types (complete)

// @h rt_full_z8 props=C01,C05,C06,C07 tier=quick kind=complete vars="v:Z8 (repr(C) zero-copy), pos0<16" fns="derive:Z8,ser/helpers.rs:serialize_zero,deser/helpers.rs:deserialize_full_zero"
rt_full!(rt_full_z8, Z8, 0, 32, 5);
// @h rt_full_z32 props=C01,C05,C06,C07 tier=thorough kind=complete vars="v:Z32 (unit 16), pos0<16" fns="derive:Z32"
rt_full!(rt_full_z32, Z32, 0, 64, 17);
// @h rt_full_zt props=C01,C05,C06,C07 tier=thorough kind=complete vars="v:ZT (nested zero-copy tuple struct), pos0<16" fns="derive:ZT"
rt_full!(rt_full_zt, ZT, 0, 32, 5);
// @h rt_full_zu props=C01,C05,C06,C07 tier=quick kind=complete vars="v:ZU<3> (zero-sized zero-copy), pos0<16" fns="derive:ZU,deser/helpers.rs:deserialize_full_zero"
rt_full!(rt_full_zu, ZU<3>, 0, 32, 3);
// @h rt_full_d2 props=C01,C05,C06,C07 tier=thorough kind=complete vars="v:D2{u16,Z8,Option<u8>,(u32,u32)}, pos0<16" fns="derive:D2"
rt_full!(rt_full_d2, D2, 0, 64, 5);
// @h rt_full_dt props=C01,C05,C06,C07 tier=quick kind=complete vars="v:DT(u32,Option<u16>), pos0<16" fns="derive:DT"
rt_full!(rt_full_dt, DT, 0, 32, 3);
// @h rt_full_e1 props=C01,C05,C06,C07,C15 tier=quick kind=complete vars="v:E1 (unit/tuple/struct variants), pos0<16" fns="derive:E1"
rt_full!(rt_full_e1, E1, 0, 32, 3);
// @h rt_full_g2 props=C01,C05,C06,C07 tier=quick kind=complete vars="v:G2<Option<u16>,u32>, pos0<16" fns="derive:G2"
rt_full!(rt_full_g2, G2<Option<u16>, u32>, 0, 32, 3);
// @h rt_full_gp props=C01,C05,C06,C07 tier=quick kind=complete vars="v:GP<u64,2>{[u16;2],PhantomData}, pos0<16" fns="derive:GP"
rt_full!(rt_full_gp, GP<u64, 2>, 0, 32, 4);
// @h rt_full_ge props=C01,C05,C06,C07,C15 tier=quick kind=complete vars="v:GE<Option<u8>>, pos0<16" fns="derive:GE"
rt_full!(rt_full_ge, GE<Option<u8>>, 0, 48, 3);

// @h rt_full_ed props=C01,C05,C06,C07,C15 tier=quick kind=complete vars="v:ED (explicit discriminants 1,2,5), pos0<16" fns="derive:ED (enum tags)"
rt_full!(rt_full_ed, ED, 0, 32, 3);

// ---------------------------------------------------------------- sequences (bounded stand-ins)

// @h rt_full_vec_u16 props=C01,C06,C07 tier=quick kind=bounded bound="len<=3" vars="v:Vec<u16>, pos0<16" fns="impls/vec.rs,ser/helpers.rs:serialize_slice_zero,deser/helpers.rs:deserialize_full_vec_zero"
rt_full!(rt_full_vec_u16, Vec<u16>, 3, 48, 5);
// elements whose unit (16) is wider than the length word: the gap after the length can be 8
// (added after seed C01-R10: the writer padded such sequences to pointer width only)
// @h rt_full_vec_u128 props=C01,C06,C07 tier=quick kind=bounded bound="len<=1" vars="v:Vec<u128>, pos0<16" fns="impls/vec.rs,ser/helpers.rs:serialize_slice_zero,deser/helpers.rs:deserialize_full_vec_zero"
rt_full!(rt_full_vec_u128, Vec<u128>, 1, 64, 18);
// @h rt_full_box_u32 props=C01,C06,C07 tier=thorough kind=bounded bound="len<=2" vars="v:Box<[u32]>, pos0<16" fns="impls/boxed_slice.rs"
rt_full!(rt_full_box_u32, Box<[u32]>, 2, 48, 5);
// @h rt_full_vec_opt_u8 props=C01,C06,C07 tier=thorough kind=bounded bound="len<=3" vars="v:Vec<Option<u8>>, pos0<16" fns="impls/vec.rs,ser/helpers.rs:serialize_slice_deep,deser/helpers.rs:deserialize_full_vec_deep"
rt_full!(rt_full_vec_opt_u8, Vec<Option<u8>>, 3, 48, 5);
// (bound lowered from 2/2 to 1/1: with 2/2 CBMC came close to the memory cap and did not finish on a loaded
// machine; nesting of sequences at any depth and length is carried by the Verus helper contracts)
// @h rt_full_vec_vec_u8 props=C01,C06,C07 tier=thorough kind=bounded bound="outer len<=1, inner len<=1" vars="v:Vec<Vec<u8>>, pos0<16" fns="impls/vec.rs"
rt_full!(rt_full_vec_vec_u8, Vec<Vec<u8>>, 1, 48, 3);
// @h rt_full_string props=C01,C06,C07 tier=quick kind=bounded bound="len<=3, ASCII" vars="v:String, pos0<16" fns="impls/string.rs"
rt_full_str!(rt_full_string, String, 3, 48, 5);
// @h rt_full_box_str props=C01,C06,C07 tier=thorough kind=bounded bound="len<=3, ASCII" vars="v:Box<str>, pos0<16" fns="impls/string.rs"
rt_full_str!(rt_full_box_str, Box<str>, 3, 48, 5);
// @h rt_full_vec_unit props=C01,C06,C07 tier=quick kind=bounded bound="len<=3" vars="v:Vec<()>, pos0<16" fns="impls/vec.rs,impls/prim.rs:unit MaxSizeOf"
rt_full!(rt_full_vec_unit, Vec<()>, 3, 48, 5);
// @h rt_full_vec_z8 props=C01,C05,C06,C07 tier=thorough kind=bounded bound="len<=2" vars="v:Vec<Z8>, pos0<16" fns="impls/vec.rs,derive:Z8"
rt_full!(rt_full_vec_z8, Vec<Z8>, 2, 48, 5);
// @h rt_full_vec_zp props=C01,C05,C06,C07 tier=quick kind=bounded bound="len<=1" vars="v:Vec<ZP> (packed: align_of 1, unit 8), pos0<16" fns="ser/helpers.rs:serialize_slice_zero,derive:ZP"
rt_full!(rt_full_vec_zp, Vec<ZP>, 1, 48, 9);
// @h rt_full_d1 props=C01,C05,C06,C07 tier=thorough kind=bounded bound="len<=2" vars="v:D1{u8,Vec<u16>,Option<u32>}, pos0<16" fns="derive:D1"
rt_full!(rt_full_d1, D1, 2, 48, 4);
// @h rt_full_gm props=C01,C05,C06,C07 tier=quick kind=bounded bound="len<=2" vars="v:GM<u16>{Vec<u16>,u16}, pos0<16" fns="derive:GM"
rt_full!(rt_full_gm, GM<u16>, 2, 48, 4);

// ---------------------------------------------------------------- really placed streams: slice cursor and io::Read reader

// @h rt_placed_opt_u32_0 props=C01,C07 tier=quick kind=complete vars="v:Option<u32>, pos0=0" fns="deser/slice_with_pos.rs:read_exact,deser/read.rs:ReadNoStd for Read"
rt_placed!(rt_placed_opt_u32_0, Option<u32>, 0, 32, 3, 0);
// @h rt_placed_vec_u16_3 props=C01,C07 tier=quick kind=bounded bound="len<=3" vars="v:Vec<u16>, pos0=3" fns="deser/slice_with_pos.rs:align,deser/reader_with_pos.rs:align"
rt_placed!(rt_placed_vec_u16_3, Vec<u16>, 3, 48, 5, 3);
// @h rt_placed_d2_3 props=C01,C05,C07 tier=thorough kind=complete vars="v:D2, pos0=3" fns="derive:D2"
rt_placed!(rt_placed_d2_3, D2, 0, 64, 5, 3);
// @h rt_placed_e1_5 props=C01,C05,C07,C15 tier=quick kind=complete vars="v:E1, pos0=5" fns="derive:E1"
rt_placed!(rt_placed_e1_5, E1, 0, 48, 3, 5);
