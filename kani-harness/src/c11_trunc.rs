//! C11: a strict prefix of a valid serialization is never turned into a value.
//!
//! The prefix is copied into an exact-size heap object, so that CBMC's object
//! bounds are the prefix bounds: any read outside the prefix is a failed
//! pointer check (not whitelisted). Bounds-check *panics* of the ε-copy path
//! are what the property allows and are whitelisted by description.

use crate::lemmas::*;
use crate::refenc::*;
use crate::sinks::*;
use crate::types::*;
use core::ops::{Bound, ControlFlow};
use epserde::deser::{self, DeserializeInner, ReadNoStd, ReadWithPos, ReaderWithPos, SliceWithPos};

macro_rules! cut {
    ($name:ident, $t:ty, $bound:expr, $cap:expr, $unw:expr) => {
        #[kani::proof]
        #[kani::unwind($unw)]
        #[kani::stub(std::string::String::from_utf8, crate::lemmas::stub_from_utf8)]
        pub fn $name() {
            let v = <$t as Sym>::sym($bound);
            let mut sink = ArrSink::<$cap>::new();
            let (r, _) = ser_at(&v, 0, &mut sink);
            assert!(r.is_ok(), "[C01/ser.ok] serialization into an infallible sink succeeds");
            let n = sink.len;
            kani::assume(n > 0);
            let k: usize = kani::any();
            kani::assume(k < n);
            // exact-size copy of the prefix
            let pre: Vec<u8> = sink.buf[..k].to_vec();

            // full copy through the generic reader: a read error, for every k
            let mut src: &[u8] = &pre[..];
            let mut rd = ReaderWithPos::new(&mut src);
            match <$t>::_deserialize_full_inner(&mut rd) {
                Ok(_) => assert!(false, "[C11/full.never_ok] a strict prefix is never full-copy deserialized into a value"),
                Err(deser::Error::ReadError) => {}
                Err(e) => { core::mem::forget(e); assert!(false, "[C11/full.read_error] full-copy of a strict prefix returns a read error") }
            };

            // eps copy of the exact prefix: error or bounds-check panic, never a value
            let mut s = SliceWithPos { data: &pre[..], pos: 0 };
            let re = <$t>::_deserialize_eps_inner(&mut s);
            assert!(re.is_err(), "[C11/eps.never_ok] a strict prefix is never eps-copy deserialized into a value");
            core::mem::forget(re);
            kani::cover!(k + 1 == n, "[cover] cut just before the last byte reached");
        }
    };
}

// the ε-copy path may panic on truncated input (documented): slice bounds checks only
// @h cut_opt_u32 props=C11 tier=quick kind=complete vars="v:Option<u32>, every cut k<len" allow="core::slice::index::slice_index_fail|index out of bounds|called `Result::unwrap\(\)` on an `Err` value" fns="impls/prim.rs:Option,deser/slice_with_pos.rs"
cut!(cut_opt_u32, Option<u32>, 0, 32, 9);
// @h cut_range_incl props=C11 tier=quick kind=complete vars="v:RangeInclusive<u16> (not exhausted), every cut k<len" allow="core::slice::index::slice_index_fail|index out of bounds|called `Result::unwrap\(\)` on an `Err` value" fns="impls/stdlib.rs:RangeInclusive"
cut!(cut_range_incl, core::ops::RangeInclusive<u16>, 0, 32, 9);
// @h cut_range_u32 props=C11 tier=quick kind=complete vars="v:Range<u32>, every cut k<len" allow="core::slice::index::slice_index_fail|index out of bounds|called `Result::unwrap\(\)` on an `Err` value" fns="impls/stdlib.rs:Range"
cut!(cut_range_u32, core::ops::Range<u32>, 0, 32, 9);
// @h cut_bound_u16 props=C11 tier=quick kind=complete vars="v:Bound<u16>, every cut k<len" allow="core::slice::index::slice_index_fail|index out of bounds|called `Result::unwrap\(\)` on an `Err` value" fns="impls/stdlib.rs:Bound"
cut!(cut_bound_u16, Bound<u16>, 0, 32, 9);
// @h cut_cf props=C11 tier=quick kind=complete vars="v:ControlFlow<u8,u16>, every cut k<len" allow="core::slice::index::slice_index_fail|index out of bounds|called `Result::unwrap\(\)` on an `Err` value" fns="impls/stdlib.rs:ControlFlow"
cut!(cut_cf, ControlFlow<u8, u16>, 0, 32, 9);
// @h cut_opt_range_incl props=C11 tier=quick kind=complete vars="v:Option<RangeInclusive<u8>>, every cut k<len" allow="core::slice::index::slice_index_fail|index out of bounds|called `Result::unwrap\(\)` on an `Err` value" fns="impls/stdlib.rs:RangeInclusive,impls/prim.rs:Option"
cut!(cut_opt_range_incl, Option<core::ops::RangeInclusive<u8>>, 0, 32, 9);
// @h cut_e1 props=C11,C05 tier=quick kind=complete vars="v:E1, every cut k<len" allow="core::slice::index::slice_index_fail|index out of bounds|called `Result::unwrap\(\)` on an `Err` value" fns="derive:E1"
cut!(cut_e1, E1, 0, 32, 17);
// @h cut_vec_u16 props=C11 tier=quick kind=bounded bound="len<=2" vars="v:Vec<u16>, every cut k<len" allow="core::slice::index::slice_index_fail|index out of bounds|called `Result::unwrap\(\)` on an `Err` value" fns="deser/helpers.rs:deserialize_eps_slice_zero,deser/helpers.rs:deserialize_full_vec_zero"
cut!(cut_vec_u16, Vec<u16>, 2, 32, 17);
// @h cut_z8 props=C11,C05 tier=quick kind=complete vars="v:Z8, every cut k<len" allow="core::slice::index::slice_index_fail|index out of bounds|called `Result::unwrap\(\)` on an `Err` value" fns="deser/helpers.rs:deserialize_eps_zero,deser/helpers.rs:deserialize_full_zero"
cut!(cut_z8, Z8, 0, 32, 17);
// (cut_vec_opt_u8 dropped: CBMC did not finish within the thorough budget on a loaded machine; the
// property for deep sequences of any length is the Verus lemma lemma_seq_deep_prefix + deserialize_full_vec_deep)
// @h cut_string props=C11 tier=thorough kind=bounded bound="len<=2 ASCII" vars="v:String, every cut k<len" allow="core::slice::index::slice_index_fail|index out of bounds|called `Result::unwrap\(\)` on an `Err` value" fns="impls/string.rs"
cut!(cut_string, String, 2, 32, 17);
// @h cut_d2 props=C11,C05 tier=thorough kind=complete vars="v:D2, every cut k<len" allow="core::slice::index::slice_index_fail|index out of bounds|called `Result::unwrap\(\)` on an `Err` value" fns="derive:D2"
cut!(cut_d2, D2, 0, 64, 17);

/// the same with the value placed mid-stream, so that a zero-copy block is
/// preceded by real padding (a cut can fall inside the padding, also when the
/// sequence is empty)
macro_rules! cut_at {
    ($name:ident, $t:ty, $bound:expr, $cap:expr, $unw:expr, $pos0:expr) => {
        #[kani::proof]
        #[kani::unwind($unw)]
        pub fn $name() {
            let v = <$t as Sym>::sym($bound);
            let mut sink = ArrSink::<$cap>::new();
            let (r, _) = ser_at(&v, $pos0, &mut sink);
            assert!(r.is_ok(), "[C01/ser.ok] serialization into an infallible sink succeeds");
            let n = sink.len;
            let k: usize = kani::any();
            kani::assume($pos0 <= k && k < n);
            let pre: Vec<u8> = sink.buf[..k].to_vec();

            let mut src: &[u8] = &pre[..];
            let mut rd = ReaderWithPos::new(&mut src);
            let mut skip = [0u8; MAX_PREFIX];
            let _ = rd.read_exact(&mut skip[..$pos0]);
            match <$t>::_deserialize_full_inner(&mut rd) {
                Ok(_) => assert!(false, "[C11/full.never_ok] a strict prefix is never full-copy deserialized into a value"),
                Err(deser::Error::ReadError) => {}
                Err(e) => { core::mem::forget(e); assert!(false, "[C11/full.read_error] full-copy of a strict prefix returns a read error") }
            };
            let mut s = SliceWithPos { data: &pre[$pos0..], pos: $pos0 };
            let re = <$t>::_deserialize_eps_inner(&mut s);
            assert!(re.is_err(), "[C11/eps.never_ok] a strict prefix is never eps-copy deserialized into a value");
            core::mem::forget(re);
            kani::cover!(k + 1 == n, "[cover] cut just before the last byte reached");
        }
    };
}
// @h cut_vec_u32_p3 props=C11 tier=quick kind=bounded bound="len<=1" vars="v:Vec<u32> at stream offset 3 (1 padding byte, also when empty), every cut" allow="core::slice::index::slice_index_fail|index out of bounds|called `Result::unwrap\(\)` on an `Err` value" fns="deser/helpers.rs:deserialize_full_vec_zero,deser/helpers.rs:deserialize_eps_slice_zero"
cut_at!(cut_vec_u32_p3, Vec<u32>, 1, 32, 17, 3);
