//! C13: writer failures yield an error, a clean prefix, and an intact source.

use crate::lemmas::*;
use crate::refenc::*;
use crate::sinks::*;
use crate::types::*;
use epserde::impls::iter::SerIter;
use epserde::ser::{self, Serialize, SerializeInner, WriteNoStd, WriteWithNames, WriteWithPos, WriterWithPos};

/// what `Serialize::serialize` does after the header: ROOT value, then flush
pub fn ser_root<T: SerializeInner, W: WriteNoStd>(v: &T, sink: &mut W) -> ser::Result<usize> {
    let mut w = WriterWithPos::new(sink);
    v._serialize_inner(&mut w)?;
    w.flush()?;
    Ok(w.pos())
}

macro_rules! wfail_body {
    ($v:expr, $cap:expr) => {{
        // fault-free bytes
        let mut good = ArrSink::<$cap>::new();
        let rg = ser_root($v, &mut good);
        assert!(rg.is_ok(), "[C01/ser.ok] serialization into an infallible sink succeeds");
        let n = good.len;
        // faulty run
        let k: usize = kani::any();
        kani::assume(k <= n);
        let partial: bool = kani::any();
        let fail_flush: bool = kani::any();
        let mut bad = FailingSink::<$cap>::new(k, partial, fail_flush);
        let rb = ser_root($v, &mut bad);
        let must_fail = k < n || fail_flush;
        match &rb {
            Ok(cnt) => {
                assert!(!must_fail, "[C13/never_ok] serialization never reports success when the writer failed");
                assert!(*cnt == n, "[C13/count] a fault-free run reports the fault-free byte count");
            }
            Err(ser::Error::WriteError) => {
                assert!(must_fail, "[C13/spurious] no error without a writer failure");
            }
            Err(_) => assert!(false, "[C13/kind] a writer failure is reported as a write error"),
        }
        // accepted bytes are a prefix of the fault-free output
        assert!(bad.len <= n, "[C13/prefix.len] the writer accepted no more than the fault-free output");
        let i = sym_index($cap);
        if i < bad.len {
            assert!(bad.buf[i] == good.buf[i], "[C13/prefix.bytes] the accepted bytes are a prefix of the fault-free output");
        }
        core::mem::forget(rb);
        kani::cover!(k < n && bad.len == k && k > 0, "[cover] failure in the middle with a partial chunk reached");
    }};
}

macro_rules! wfail {
    ($name:ident, $t:ty, $bound:expr, $cap:expr, $unw:expr) => {
        #[kani::proof]
        #[kani::unwind($unw)]
        pub fn $name() {
            let v = <$t as Sym>::sym($bound);
            wfail_body!(&v, $cap);
            // the source value is intact and is dropped exactly once (CBMC
            // reports double free / use of a deallocated object otherwise)
            let v2 = v;
            core::hint::black_box(&v2);
        }
    };
}

// @h wfail_u64 props=C13 tier=quick kind=complete vars="v:u64, failure position k<=len, partial chunk, flush failure" fns="ser/write.rs:WriterWithPos::write_all,ser/write.rs:flush"
wfail!(wfail_u64, u64, 0, 32, 3);
// @h wfail_opt_u32 props=C13 tier=quick kind=complete vars="v:Option<u32>, k<=len, partial, flush failure" fns="impls/prim.rs:Option::_serialize_inner"
wfail!(wfail_opt_u32, Option<u32>, 0, 32, 3);
// @h wfail_vec_u16 props=C13 tier=quick kind=bounded bound="len<=2" vars="v:Vec<u16>, k<=len, partial, flush failure" fns="ser/helpers.rs:serialize_slice_zero,ser/write_with_names.rs:align"
wfail!(wfail_vec_u16, Vec<u16>, 2, 32, 5);
// @h wfail_d2 props=C13,C05 tier=thorough kind=complete vars="v:D2, k<=len, partial, flush failure" fns="derive:D2"
wfail!(wfail_d2, D2, 0, 64, 5);

/// borrowed slice: the data behind the reference must survive a failing writer
// @h wfail_slice_u16 props=C13 tier=quick kind=bounded bound="len<=2" vars="v:&[u16] over an owned Vec, k<=len, partial, flush failure" fns="impls/slice.rs:_serialize_inner"
#[kani::proof]
#[kani::unwind(5)]
pub fn wfail_slice_u16() {
    let owner = <Vec<u16>>::sym(2);
    {
        let s: &[u16] = owner.as_slice();
        wfail_body!(&s, 32);
    }
    // the owner is still readable and is freed exactly once
    let i = sym_index(2);
    if i < owner.len() {
        core::hint::black_box(owner[i]);
    }
    drop(owner);
}

/// exact-size iterator wrapper (a fresh wrapper per run: serializing consumes the iterator)
// @h wfail_iter_u16 props=C13,C16 tier=quick kind=bounded bound="len<=2" vars="v:SerIter over Vec<u16>, k<=len, partial, flush failure" fns="impls/iter.rs:SerializeHelper<Zero>::_serialize_inner"
#[kani::proof]
#[kani::unwind(5)]
pub fn wfail_iter_u16() {
    let owner = <Vec<u16>>::sym(2);
    {
        wfail_body!(&SerIter::from(owner.iter()), 32);
    }
    drop(owner);
}

/// an iterator that yields one item more than it announces, on a writer that
/// fails: whatever else is reported, it is never success
// @h wfail_iter_lying props=C13,C16 tier=quick kind=bounded bound="announced=1, yields 2" vars="one announced and one extra item (symbolic), failure position k (any) within the bytes handed to the writer, partial chunk" fns="impls/iter.rs:SerializeHelper<Zero>::_serialize_inner"
#[kani::proof]
#[kani::unwind(6)]
pub fn wfail_iter_lying() {
    let items: [u16; 3] = kani::any();
    let announced: usize = 1;
    let k: usize = kani::any();
    kani::assume(k <= 12);
    let mut bad = FailingSink::<32>::new(k, kani::any(), false);
    let it = crate::c16_slices::Lying { items: &items, next: 0, actual: announced + 1, announced };
    let rb = ser_root(&SerIter::from(it), &mut bad);
    if bad.failed {
        assert!(rb.is_err(), "[C13/never_ok] serialization never reports success when the writer failed");
    }
    assert!(rb.is_err(), "[C16/lying] an iterator yielding more items than announced is an error");
    core::mem::forget(rb);
    kani::cover!(bad.failed, "[cover] writer failure reached");
}

/// `io::Write` sinks that shorten writes or return `Interrupted` receive
/// exactly the fault-free bytes (blanket `impl<W: Write> WriteNoStd for W`).
// @h wshort_opt_u32 props=C13 tier=thorough kind=bounded bound="4 planned short writes, then 1 byte per call" vars="v:Option<u32>, plan[4] symbolic (0 = Interrupted)" fns="ser/write.rs:impl WriteNoStd for W: Write"
#[kani::proof]
#[kani::unwind(12)]
pub fn wshort_opt_u32() {
    let v = <Option<u32>>::sym(0);
    let mut good = ArrSink::<16>::new();
    let rg = ser_root(&v, &mut good);
    assert!(rg.is_ok(), "[C01/ser.ok] serialization into an infallible sink succeeds");
    let plan: [u8; 4] = kani::any();
    // at most two interruptions so that the retry loops stay within the unwinding bound
    let mut zeros = 0;
    let mut i = 0;
    while i < 4 {
        if plan[i] == 0 {
            zeros += 1;
        }
        i += 1;
    }
    kani::assume(zeros <= 2);
    let mut w = ShortWriter::<16, 4>::new(plan);
    let rs = ser_root(&v, &mut w);
    assert!(rs.is_ok(), "[C13/short.ok] short and interrupted writes are retried, not reported as failures");
    assert!(w.len == good.len, "[C13/short.len] a splitting writer receives exactly the fault-free byte count");
    let j = sym_index(16);
    if j < w.len {
        assert!(w.buf[j] == good.buf[j], "[C13/short.bytes] a splitting writer receives exactly the fault-free bytes");
    }
    core::mem::forget(rs);
}

/// The real entry points (`Serialize::serialize`, `serialize_with_schema`):
/// a failing flush, or a failing write at a symbolic position of the whole
/// stream (header included), is reported as a write error.
// @h wfail_entry_flush props=C13 tier=quick kind=complete vars="v:u8 through Serialize::serialize; flush failure (symbolic)" fns="ser/mod.rs:serialize,ser/mod.rs:serialize_on_field_write"
#[kani::proof]
#[kani::unwind(9)]
pub fn wfail_entry_flush() {
    let v: u8 = kani::any();
    let fail_flush: bool = kani::any();
    let mut bad = FailingSink::<96>::new(96, false, fail_flush);
    let rb = v.serialize(&mut bad);
    match &rb {
        Ok(cnt) => {
            assert!(!fail_flush, "[C13/never_ok] serialization never reports success when the flush failed");
            assert!(*cnt == bad.len, "[C13/count] a fault-free run reports the bytes handed to the writer");
        }
        Err(ser::Error::WriteError) => assert!(fail_flush, "[C13/spurious] no error without a writer failure"),
        Err(_) => assert!(false, "[C13/kind] a writer failure is reported as a write error"),
    }
    assert!(bad.flushes == 1, "[C13/flush.once] the writer is flushed exactly once");
    core::mem::forget(rb);
}

// @h wfail_schema_flush props=C13,C18 tier=quick kind=complete vars="v:u8 through Serialize::serialize_with_schema; flush failure (symbolic)" fns="ser/mod.rs:serialize_with_schema"
#[kani::proof]
#[kani::unwind(17)]
#[kani::stub(alloc::fmt::format, crate::c18_schema::stub_format)]
pub fn wfail_schema_flush() {
    let v: u8 = kani::any();
    let fail_flush: bool = kani::any();
    let mut bad = FailingSink::<96>::new(96, false, fail_flush);
    let rb = v.serialize_with_schema(&mut bad);
    assert!(rb.is_ok() == !fail_flush, "[C13/schema.flush] serialize_with_schema reports a failing flush as a write error (and flushes)");
    assert!(bad.flushes == 1, "[C13/schema.flushed] serialize_with_schema flushes the writer");
    core::mem::forget(rb);
}

/// cheap version for the quick tier: one two-byte write, two planned calls
// @h wshort_u16 props=C13 tier=quick kind=complete vars="v:u16, plan[2] symbolic (0 = Interrupted, k = accept at most k bytes), at most one interruption" fns="ser/write.rs:impl WriteNoStd for W: Write"
#[kani::proof]
#[kani::unwind(6)]
pub fn wshort_u16() {
    let v: u16 = kani::any();
    let plan: [u8; 2] = kani::any();
    kani::assume(plan[0] != 0 || plan[1] != 0);
    let mut w = ShortWriter::<8, 2>::new(plan);
    let rs = ser_root(&v, &mut w);
    assert!(rs.is_ok(), "[C13/short.ok] short and interrupted writes are retried, not reported as failures");
    assert!(w.len == 2, "[C13/short.len] a splitting writer receives exactly the fault-free byte count");
    let b = v.to_le_bytes();
    assert!(w.buf[0] == b[0] && w.buf[1] == b[1], "[C13/short.bytes] a splitting writer receives exactly the fault-free bytes");
    core::mem::forget(rs);
    kani::cover!(plan[0] == 0, "[cover] interruption on the first attempt reached");
}

/// a sink that is full rejects by returning `Ok(0)`: that is a write error, never success
/// (added after seed C13-R10: a hand-written `write_all` loop whose `Ok(0)` arm breaks out
/// and reports `Ok(())`)
// @h wfull_u32 props=C13 tier=quick kind=complete vars="v:u32, capacity 0..=4 of a sink that returns Ok(0) when full" fns="ser/write.rs:impl WriteNoStd for W: Write"
#[kani::proof]
#[kani::unwind(8)]
pub fn wfull_u32() {
    let v: u32 = kani::any();
    let cap: usize = kani::any();
    kani::assume(cap <= 4);
    let mut w = FullWriter::<8>::new(cap);
    let rs = ser_root(&v, &mut w);
    let b = v.to_ne_bytes();
    if cap < 4 {
        assert!(matches!(rs, Err(ser::Error::WriteError)), "[C13/full.err] a sink that stops accepting bytes yields a write error, never success");
    } else {
        assert!(rs.is_ok(), "[C13/full.ok] a sink with enough room accepts the value");
    }
    assert!(w.len <= 4 && w.len == if cap < 4 { cap } else { 4 }, "[C13/full.prefix.len] the sink holds what fitted");
    let i = sym_index(4);
    if i < w.len {
        assert!(w.buf[i] == b[i], "[C13/full.prefix] the accepted bytes are a prefix of the fault-free bytes");
    }
    core::mem::forget(rs);
    kani::cover!(cap == 2, "[cover] half-full sink reached");
}
