//! C17 (run-time layer only): a type wrongly declared zero-copy panics before
//! any byte of the value is written.

use crate::lemmas::*;
use crate::sinks::*;
use epserde::traits::*;
use epserde::prelude::MaxSizeOf as _;
use epserde::ser::{self, SerializeInner, WriteNoStd, WriteWithNames, WriterWithPos};

/// declared zero-copy (`Copy = Zero`) but not actually zero-copy
#[derive(Clone, Copy)]
pub struct Wrong(pub u32);
impl CopyType for Wrong {
    type Copy = Zero;
}
impl MaxSizeOf for Wrong {
    fn max_size_of() -> usize {
        4
    }
}
impl TypeHash for Wrong {
    fn type_hash(_h: &mut impl core::hash::Hasher) {}
}
impl AlignHash for Wrong {
    fn align_hash(_h: &mut impl core::hash::Hasher, _o: &mut usize) {}
}
impl SerializeInner for Wrong {
    type SerType = Self;
    const IS_ZERO_COPY: bool = false;
    const ZERO_COPY_MISMATCH: bool = false;
    fn _serialize_inner(&self, backend: &mut impl WriteWithNames) -> ser::Result<()> {
        epserde::ser::helpers::serialize_zero(backend, self)
    }
}

impl epserde::deser::DeserializeInner for Wrong {
    type DeserType<'a> = Wrong;
    fn _deserialize_full_inner(backend: &mut impl epserde::deser::ReadWithPos) -> epserde::deser::Result<Self> {
        Ok(Wrong(<u32 as epserde::deser::DeserializeInner>::_deserialize_full_inner(backend)?))
    }
    fn _deserialize_eps_inner<'a>(backend: &mut epserde::deser::SliceWithPos<'a>) -> epserde::deser::Result<Self> {
        Ok(Wrong(<u32 as epserde::deser::DeserializeInner>::_deserialize_eps_inner(backend)?))
    }
}

/// derived zero-copy types holding a wrongly declared field: the compile-time
/// bound accepts `Wrong` (it is declared `Zero`), so only the derived
/// `IS_ZERO_COPY` conjunction stands between it and the stream
#[derive(epserde::Epserde, Clone, Copy)]
#[repr(C)]
#[zero_copy]
pub enum WrongEnumT {
    Empty,
    Full(u64, Wrong),
}
#[derive(epserde::Epserde, Clone, Copy)]
#[repr(C)]
#[zero_copy]
pub enum WrongEnumN {
    Empty,
    Named { w: Wrong },
}
#[derive(epserde::Epserde, Clone, Copy)]
#[repr(C)]
#[zero_copy]
pub struct WrongStruct {
    pub id: u64,
    pub w: Wrong,
}

/// generic zero-copy definitions: the offending type arrives through a type
/// parameter (as the field type itself, inside an array, in an enum variant)
#[derive(epserde::Epserde, Clone, Copy)]
#[repr(C)]
#[zero_copy]
pub struct WrapS<T: ZeroCopy> {
    pub tag: u64,
    pub inner: T,
}
#[derive(epserde::Epserde, Clone, Copy)]
#[repr(C)]
#[zero_copy]
pub struct WrapA<T: ZeroCopy> {
    pub tag: u64,
    pub inner: [T; 2],
}
#[derive(epserde::Epserde, Clone, Copy)]
#[repr(C)]
#[zero_copy]
pub enum WrapE<T: ZeroCopy> {
    Empty,
    Full(T),
}

/// a sink on which any write is an error of the property
pub struct NoWrite;
impl WriteNoStd for NoWrite {
    fn write_all(&mut self, _b: &[u8]) -> ser::Result<()> {
        assert!(false, "[C17/no_write] no byte is written before the zero-copy check panics");
        Ok(())
    }
    fn flush(&mut self) -> ser::Result<()> {
        Ok(())
    }
}

macro_rules! must_panic {
    ($name:ident, $mk:expr) => {
        #[kani::proof]
        #[kani::unwind(6)]
        pub fn $name() {
            let v = $mk;
            let mut sink = NoWrite;
            let mut w = WriterWithPos::new(&mut sink);
            let r = SerializeInner::_serialize_inner(&v, &mut w);
            core::mem::forget(r);
            assert!(false, "[C17/panics] serializing a wrongly declared zero-copy type does not return");
        }
    };
}

// the expected panic of check_zero_copy is the only whitelisted failure
// @h zero_check_value props=C17 tier=quick kind=complete vars="v:Wrong(u32) through serialize_zero" allow="Cannot serialize type|check_zero_copy::" fns="ser/helpers.rs:check_zero_copy,ser/helpers.rs:serialize_zero"
must_panic!(zero_check_value, Wrong(kani::any()));
// @h zero_check_vec props=C17 tier=quick kind=bounded bound="len<=2" vars="v:Vec<Wrong> through serialize_slice_zero (len is written after the check)" allow="Cannot serialize type|check_zero_copy::" fns="ser/helpers.rs:serialize_slice_zero"
must_panic!(zero_check_vec, { let n: usize = kani::any(); kani::assume(n <= 2); let mut v = Vec::with_capacity(2); let mut i = 0; while i < n { v.push(Wrong(kani::any())); i += 1; } v });
// @h zero_check_array props=C17 tier=quick kind=complete vars="v:[Wrong;2] through serialize_zero" allow="Cannot serialize type|check_zero_copy::" fns="impls/array.rs:SerializeHelper<Zero>"
must_panic!(zero_check_array, [Wrong(kani::any()), Wrong(kani::any())]);
// @h zero_check_iter props=C17 tier=quick kind=complete vars="v:SerIter over [Wrong;2]" allow="Cannot serialize type|check_zero_copy::" fns="impls/iter.rs:SerializeHelper<Zero>"
must_panic!(zero_check_iter, { static W: [Wrong; 2] = [Wrong(1), Wrong(2)]; epserde::impls::iter::SerIter::from(W.iter()) });

// @h zero_check_derived_enum_tuple props=C17,C05 tier=quick kind=complete vars="v:WrongEnumT::Full(u64, Wrong) (derived zero-copy enum whose only offending field sits in a tuple variant)" allow="Cannot serialize type|check_zero_copy::" fns="derive:IS_ZERO_COPY (enum, tuple variant),ser/helpers.rs:serialize_zero"
must_panic!(zero_check_derived_enum_tuple, WrongEnumT::Full(kani::any(), Wrong(kani::any())));
// @h zero_check_derived_enum_named props=C17,C05 tier=quick kind=complete vars="v:WrongEnumN::Named{w} (derived zero-copy enum whose only offending field sits in a struct variant)" allow="Cannot serialize type|check_zero_copy::" fns="derive:IS_ZERO_COPY (enum, struct variant)"
must_panic!(zero_check_derived_enum_named, WrongEnumN::Named { w: Wrong(kani::any()) });
// @h zero_check_derived_struct props=C17,C05 tier=quick kind=complete vars="v:WrongStruct{id,w} (derived zero-copy struct)" allow="Cannot serialize type|check_zero_copy::" fns="derive:IS_ZERO_COPY (struct)"
must_panic!(zero_check_derived_struct, WrongStruct { id: kani::any(), w: Wrong(kani::any()) });

/// vacuity guard: a correctly declared type does reach the end
// @h zero_check_generic_struct props=C17,C05 tier=quick kind=complete vars="v:WrapS<Wrong> (derived generic zero-copy struct, offending type bound to the parameter)" allow="Cannot serialize type|check_zero_copy::" fns="derive:IS_ZERO_COPY"
must_panic!(zero_check_generic_struct, WrapS::<Wrong> { tag: kani::any(), inner: Wrong(kani::any()) });
// @h zero_check_generic_array props=C17,C05 tier=quick kind=complete vars="v:WrapA<Wrong> (field type [T;2] mentions the parameter)" allow="Cannot serialize type|check_zero_copy::" fns="derive:IS_ZERO_COPY,impls/array.rs:IS_ZERO_COPY"
must_panic!(zero_check_generic_array, WrapA::<Wrong> { tag: kani::any(), inner: [Wrong(kani::any()), Wrong(kani::any())] });
// @h zero_check_generic_enum props=C17,C05 tier=quick kind=complete vars="v:WrapE<Wrong>::Full (derived generic zero-copy enum)" allow="Cannot serialize type|check_zero_copy::" fns="derive:IS_ZERO_COPY"
must_panic!(zero_check_generic_enum, WrapE::<Wrong>::Full(Wrong(kani::any())));
// @h zero_check_canary props=C17 tier=quick kind=complete expect=fail vars="v:[u32;2] (correct): the must-not-return assertion must fail" fns="ser/helpers.rs:check_zero_copy"
#[kani::proof]
#[kani::unwind(6)]
pub fn zero_check_canary() {
    let v: [u32; 2] = kani::any();
    let mut sink = ArrSink::<16>::new();
    let mut w = WriterWithPos::new(&mut sink);
    let r = SerializeInner::_serialize_inner(&v, &mut w);
    core::mem::forget(r);
    assert!(false, "[C17/panics] serializing a wrongly declared zero-copy type does not return");
}
