//! C18: the recorded schema describes exactly the bytes that were written.
//! `alloc::fmt::format` is stubbed: string contents are not part of the
//! property (rows are compared by offset / size / align only).

use crate::lemmas::*;
use crate::refenc::*;
use crate::sinks::*;
use crate::types::*;
use epserde::ser::{Schema, SchemaRow, SchemaWriter, SerializeInner, WriteNoStd, WriteWithNames, WriteWithPos, WriterWithPos};

pub fn stub_format(_args: core::fmt::Arguments<'_>) -> String {
    String::new()
}

const MAXROWS: usize = 16;

/// payload-level `serialize_with_schema`: the ROOT write through a SchemaWriter
pub fn ser_schema<T: SerializeInner, const N: usize>(v: &T, sink: &mut ArrSink<N>) -> Option<Schema> {
    let mut w = WriterWithPos::new(sink);
    let mut sw = SchemaWriter::new(&mut w);
    match sw.write("ROOT", v) {
        Ok(()) => Some(sw.schema),
        Err(_) => None,
    }
}

macro_rules! schema_ok {
    ($name:ident, $t:ty, $bound:expr, $cap:expr, $unw:expr) => {
        #[kani::proof]
        #[kani::unwind($unw)]
        #[kani::stub(alloc::fmt::format, crate::c18_schema::stub_format)]
        pub fn $name() {
            let v = <$t as Sym>::sym($bound);
            let mut plain = ArrSink::<$cap>::new();
            let (r, _) = ser_at(&v, 0, &mut plain);
            assert!(r.is_ok(), "[C01/ser.ok] serialization into an infallible sink succeeds");
            let mut rec = ArrSink::<$cap>::new();
            let schema = ser_schema(&v, &mut rec);
            assert!(schema.is_some(), "[C18/ok] serialization with schema recording succeeds");
            let rows = schema.unwrap().0;
            let n = rec.len;
            // (1) same stream as plain serialization
            assert!(same_bytes(plain.bytes(), rec.bytes()), "[C18/same_bytes] recording writes byte-for-byte the plain stream");
            let nr = rows.len();
            assert!(nr >= 1 && nr <= MAXROWS, "[harness] row table too small");
            // (2) ROOT covers the whole stream
            assert!(rows[0].offset == 0 && rows[0].size == n, "[C18/root] the top-level row tiles the whole stream");
            // universally quantified row index
            let i = sym_index(MAXROWS);
            if i < nr {
                let ri = &rows[i];
                assert!(ri.offset + ri.size <= n, "[C18/inside] every row lies within the stream");
                if i + 1 < nr {
                    let nx = &rows[i + 1];
                    // pre-order: the next row is the first child (same offset) or starts at/after this row's start
                    assert!(nx.offset >= ri.offset, "[C18/preorder] rows are in pre-order");
                    // no partial overlap: next row is nested in this one or starts at/after its end
                    assert!(nx.offset >= ri.offset + ri.size || nx.offset + nx.size <= ri.offset + ri.size,
                        "[C18/nesting] rows nest or follow each other, never partially overlap");
                }
                if ri.align != 0 {
                    assert!(ri.offset % ri.align == 0, "[C18/aligned] a block of zero-copy data starts at a multiple of its recorded alignment");
                }
            }
            // leaves tile the stream: every byte lies in some childless row
            let b = sym_index($cap);
            if b < n {
                let mut covered = 0;
                let mut j = 0;
                while j < MAXROWS {
                    if j < nr {
                        let leaf = j + 1 >= nr || !(rows[j + 1].offset >= rows[j].offset && rows[j + 1].offset + rows[j + 1].size <= rows[j].offset + rows[j].size && rows[j].size > 0 && rows[j+1].offset < rows[j].offset + rows[j].size);
                        if leaf && rows[j].size > 0 && rows[j].offset <= b && b < rows[j].offset + rows[j].size {
                            covered += 1;
                        }
                    }
                    j += 1;
                }
                assert!(covered == 1, "[C18/tiling] leaf rows tile the stream without gaps or overlaps");
            }
            // (3) Schema::debug indexes data by row offset/size: in range by [C18/inside]
            core::mem::forget(rows);
            kani::cover!(true, "[cover] end of harness reached");
        }
    };
}

// @h schema_opt_u32 props=C18 tier=quick kind=complete vars="v:Option<u32>" fns="ser/write_with_names.rs:SchemaWriter::write,ser/write_with_names.rs:SchemaWriter::align,ser/write_with_names.rs:SchemaWriter::write_bytes"
schema_ok!(schema_opt_u32, Option<u32>, 0, 32, 17);
// (a harness for the derived tuple struct DT exhausted memory: CBMC > 40 GB on the String handling of
// SchemaWriter; dropped, see DESIGN.md section 11)
// @h schema_z8 props=C18,C05 tier=thorough kind=complete vars="v:Z8 (padding row + zero-copy block)" fns="ser/write_with_names.rs:SchemaWriter::align"
schema_ok!(schema_z8, Z8, 0, 32, 17);
// @h schema_vec_u16 props=C18 tier=thorough kind=bounded bound="len<=2" vars="v:Vec<u16>" fns="ser/write_with_names.rs:SchemaWriter"
schema_ok!(schema_vec_u16, Vec<u16>, 2, 32, 17);

/// a sequence of deep-copy elements, each holding one zero-copy block: the rows of
/// one element never reach into the next one (children tile their parent)
// @h schema_vec_db props=C18 tier=thorough kind=bounded bound="len=2" vars="v:Vec<DB> with two elements (contents symbolic)" fns="ser/write_with_names.rs:SchemaWriter::write,ser/write_with_names.rs:SchemaWriter::write_bytes"
#[kani::proof]
#[kani::unwind(17)]
#[kani::stub(alloc::fmt::format, crate::c18_schema::stub_format)]
pub fn schema_vec_db() {
    let v: Vec<DB> = vec![DB { blk: kani::any() }, DB { blk: kani::any() }];
    let mut rec = ArrSink::<32>::new();
    let schema = ser_schema(&v, &mut rec);
    assert!(schema.is_some(), "[C18/ok] serialization with schema recording succeeds");
    let rows = schema.unwrap().0;
    let n = rec.len;
    assert!(n == 16, "[C18/same_bytes] length word and two 4-byte blocks are written");
    let nr = rows.len();
    assert!(nr >= 1 && nr <= MAXROWS, "[harness] row table too small");
    assert!(rows[0].offset == 0 && rows[0].size == n, "[C18/root] the top-level row tiles the whole stream");
    let i = sym_index(MAXROWS);
    if i < nr {
        let ri = &rows[i];
        assert!(ri.offset + ri.size <= n, "[C18/inside] every row lies within the stream");
        if i + 1 < nr {
            let nx = &rows[i + 1];
            assert!(nx.offset >= ri.offset, "[C18/preorder] rows are in pre-order");
            assert!(nx.offset >= ri.offset + ri.size || nx.offset + nx.size <= ri.offset + ri.size,
                "[C18/nesting] rows nest or follow each other, never partially overlap");
        }
    }
    // each element has its own block row: [8,12) and [12,16) are both recorded as leaves
    let mut first = 0;
    let mut second = 0;
    let mut j = 0;
    while j < MAXROWS {
        if j < nr && rows[j].align == 2 && rows[j].size == 4 {
            if rows[j].offset == 8 { first += 1; }
            if rows[j].offset == 12 { second += 1; }
        }
        j += 1;
    }
    assert!(first == 1 && second == 1, "[C18/tiling] every element's zero-copy block has its own leaf row inside that element");
    core::mem::forget(rows);
}

/// padding row longer than a word: a 16-byte unit reached at stream offset 3
// @h schema_pad_u128 props=C18 tier=quick kind=complete vars="v:[u128;1] written at stream offset 3 (13 padding bytes)" fns="ser/write_with_names.rs:SchemaWriter::align"
#[kani::proof]
#[kani::unwind(17)]
#[kani::stub(alloc::fmt::format, crate::c18_schema::stub_format)]
pub fn schema_pad_u128() {
    let v: [u128; 1] = kani::any();
    let mut plain = ArrSink::<48>::new();
    let (r, _) = ser_at(&v, 3, &mut plain);
    assert!(r.is_ok(), "[C01/ser.ok] serialization into an infallible sink succeeds");
    let mut rec = ArrSink::<48>::new();
    // the writers live in an inner scope: the sink is inspected only after they are gone
    // (so that a writer with a destructor still compiles, and is observed after it ran)
    let rows = {
        let mut w = WriterWithPos::new(&mut rec);
        let _ = w.write_all(&[0u8; 3]);
        let mut sw = SchemaWriter::new(&mut w);
        let rs = sw.write("ROOT", &v);
        assert!(rs.is_ok(), "[C18/ok] serialization with schema recording succeeds");
        sw.schema.0
    };
    assert!(same_bytes(plain.bytes(), rec.bytes()), "[C18/same_bytes] recording writes byte-for-byte the plain stream");
    let nr = rows.len();
    assert!(nr == 3, "[C18/rows] ROOT, PADDING and the zero-copy block are recorded");
    if nr == 3 {
        assert!(rows[0].offset == 3 && rows[0].size == 29, "[C18/root] the row of a value covers everything written for it (padding included)");
        assert!(rows[1].offset == 3 && rows[1].size == 13, "[C18/padding.row] the padding row covers exactly the zero gap");
        assert!(rows[2].offset == 16 && rows[2].size == 16 && rows[2].align == 16, "[C18/aligned] a block of zero-copy data starts at a multiple of its recorded alignment");
    }
    let i = sym_index(13);
    assert!(rec.buf[3 + i] == 0, "[C18/padding.zero] padding rows cover only zero bytes");
    core::mem::forget(rows);
}

/// rendering: `Schema::debug` slices the data by row offset and size, `to_csv`
/// walks the rows; neither may fail (formatting itself is stubbed)
// @h schema_render_opt_u32 props=C18 tier=quick kind=complete vars="v:Option<u32>: to_csv() and debug(stream) on the recorded schema" fns="ser/write_with_names.rs:Schema::debug,ser/write_with_names.rs:Schema::to_csv"
#[kani::proof]
#[kani::unwind(17)]
#[kani::stub(alloc::fmt::format, crate::c18_schema::stub_format)]
pub fn schema_render_opt_u32() {
    let v = <Option<u32>>::sym(0);
    let mut rec = ArrSink::<32>::new();
    let schema = ser_schema(&v, &mut rec);
    assert!(schema.is_some(), "[C18/ok] serialization with schema recording succeeds");
    let schema = schema.unwrap();
    let csv = schema.to_csv();
    let dump = schema.debug(rec.bytes());
    core::mem::forget((csv, dump));
    core::mem::forget(schema);
    kani::cover!(true, "[cover] both renderings returned");
}
