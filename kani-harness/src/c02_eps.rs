//! ε-copy round-trip lemmas (C02, C03, C07) instantiated per type, on really
//! placed streams (128-byte aligned buffer, concrete start offset).

use crate::lemmas::*;
use crate::refenc::*;
use crate::types::*;
use core::marker::PhantomData;
use core::num::*;
use core::ops::{Bound, ControlFlow};

macro_rules! rt_eps {
    ($name:ident, $t:ty, $bound:expr, $cap:expr, $unw:expr, $pos0:expr) => {
        #[kani::proof]
        #[kani::unwind($unw)]
        pub fn $name() {
            let v = <$t as Sym>::sym($bound);
            lemma_rt_eps::<$t, $cap>(&v, $pos0);
            kani::cover!(true, "[cover] end of harness reached");
        }
    };
}
macro_rules! rt_eps_str {
    ($name:ident, $t:ty, $bound:expr, $cap:expr, $unw:expr, $pos0:expr) => {
        #[kani::proof]
        #[kani::unwind($unw)]
        #[kani::stub(std::string::String::from_utf8, crate::lemmas::stub_from_utf8)]
        pub fn $name() {
            let v = <$t as Sym>::sym($bound);
            lemma_rt_eps::<$t, $cap>(&v, $pos0);
            kani::cover!(true, "[cover] end of harness reached");
        }
    };
}
macro_rules! rt_eps_group {
    ($name:ident, $unw:expr, $pos0:expr, [$($t:ty),*]) => {
        #[kani::proof]
        #[kani::unwind($unw)]
        pub fn $name() {
            $( { let v = <$t as Sym>::sym(0); lemma_rt_eps::<$t, 48>(&v, $pos0); } )*
            kani::cover!(true, "[cover] end of harness reached");
        }
    };
}

// @h rt_eps_uints_1 props=C02,C07 tier=quick kind=complete vars="v:u8|u16|u32|u64|u128|usize, pos0=1" fns="impls/prim.rs:impl_prim_ser_des"
rt_eps_group!(rt_eps_uints_1, 3, 1, [u8, u16, u32, u64, u128, usize]);
// @h rt_eps_sints_floats_3 props=C02,C07 tier=quick kind=complete vars="v:i8..i128,isize,f32,f64, pos0=3" fns="impls/prim.rs:impl_prim_ser_des"
rt_eps_group!(rt_eps_sints_floats_3, 3, 3, [i8, i16, i32, i64, i128, isize, f32, f64]);
// @h rt_eps_nonzero_2 props=C02,C07 tier=quick kind=complete vars="v:NonZero*, pos0=2" fns="impls/prim.rs:impl_nonzero_ser_des"
rt_eps_group!(rt_eps_nonzero_2, 3, 2, [NonZeroU8, NonZeroU16, NonZeroU32, NonZeroU64, NonZeroU128, NonZeroUsize, NonZeroI8, NonZeroI16, NonZeroI32, NonZeroI64, NonZeroI128, NonZeroIsize]);
// @h rt_eps_misc_5 props=C02,C07 tier=quick kind=complete vars="v:bool|char|()|PhantomData|RangeFull, pos0=5" fns="impls/prim.rs"
rt_eps_group!(rt_eps_misc_5, 3, 5, [bool, char, (), PhantomData<u32>, core::ops::RangeFull]);
// @h rt_eps_sums_1 props=C02,C07,C15 tier=quick kind=complete vars="v:Option<u32>|Option<Option<u16>>|Bound<u16>|ControlFlow<u8,u16>, pos0=1" fns="impls/prim.rs:Option,impls/stdlib.rs:Bound,impls/stdlib.rs:ControlFlow"
rt_eps_group!(rt_eps_sums_1, 3, 1, [Option<u32>, Option<Option<u16>>, Bound<u16>, ControlFlow<u8, u16>]);
// @h rt_eps_ranges_7 props=C02,C07 tier=quick kind=complete vars="v:ranges over u32, pos0=7" fns="impls/stdlib.rs:impl_ranges"
rt_eps_group!(rt_eps_ranges_7, 3, 7, [core::ops::Range<u32>, core::ops::RangeFrom<u32>, core::ops::RangeTo<u32>, core::ops::RangeToInclusive<u32>, core::ops::RangeInclusive<u32>]);
// @h rt_eps_tuple1_1 props=C02,C03,C07 tier=quick kind=complete vars="v:(u32,), pos0=1" fns="impls/tuple.rs,deser/helpers.rs:deserialize_eps_zero"
rt_eps!(rt_eps_tuple1_1, (u32,), 0, 32, 5, 1);
// @h rt_eps_tuple3_9 props=C02,C03,C07 tier=quick kind=complete vars="v:(u64,u64,u64), pos0=9" fns="impls/tuple.rs,deser/helpers.rs:deserialize_eps_zero"
rt_eps!(rt_eps_tuple3_9, (u64, u64, u64), 0, 48, 9, 9);
// @h rt_eps_tuple12_0 props=C02,C03,C07 tier=thorough kind=complete vars="v:(u8 x12), pos0=0" fns="impls/tuple.rs"
rt_eps!(rt_eps_tuple12_0, (u8, u8, u8, u8, u8, u8, u8, u8, u8, u8, u8, u8), 0, 32, 3, 0);
// @h rt_eps_arr_u32_3_2 props=C02,C03,C07 tier=quick kind=complete vars="v:[u32;3], pos0=2" fns="impls/array.rs:DeserializeHelper<Zero>"
rt_eps!(rt_eps_arr_u32_3_2, [u32; 3], 0, 32, 5, 2);
// @h rt_eps_arr_z8_2_1 props=C02,C03,C07 tier=quick kind=complete vars="v:[Z8;2], pos0=1" fns="impls/array.rs:DeserializeHelper<Zero>"
rt_eps!(rt_eps_arr_z8_2_1, [Z8; 2], 0, 48, 5, 1);
// @h rt_eps_arr_opt_2_1 props=C02,C07 tier=quick kind=complete vars="v:[Option<u8>;2], pos0=1" fns="impls/array.rs:DeserializeHelper<Deep>"
rt_eps!(rt_eps_arr_opt_2_1, [Option<u8>; 2], 0, 32, 4, 1);
// @h rt_eps_arr_u16_0_1 props=C02,C03,C07 tier=quick kind=complete vars="v:[u16;0], pos0=1" fns="impls/array.rs:DeserializeHelper<Zero>"
rt_eps!(rt_eps_arr_u16_0_1, [u16; 0], 0, 32, 3, 1);
// @h rt_eps_arr_unit_2_1 props=C02,C03,C07 tier=quick kind=complete vars="v:[();2], pos0=1" fns="impls/array.rs:DeserializeHelper<Zero>"
rt_eps!(rt_eps_arr_unit_2_1, [(); 2], 0, 32, 3, 1);
// @h rt_eps_z8_3 props=C02,C03,C05,C07 tier=quick kind=complete vars="v:Z8, pos0=3" fns="derive:Z8,deser/helpers.rs:deserialize_eps_zero"
rt_eps!(rt_eps_z8_3, Z8, 0, 32, 5, 3);
// @h rt_eps_z32_5 props=C02,C03,C05,C07 tier=thorough kind=complete vars="v:Z32, pos0=5" fns="derive:Z32"
rt_eps!(rt_eps_z32_5, Z32, 0, 64, 17, 5);
// @h rt_eps_zu_1 props=C02,C03,C05,C07 tier=quick kind=complete vars="v:ZU<3> (zero-sized), pos0=1" fns="derive:ZU,deser/helpers.rs:deserialize_eps_zero"
rt_eps!(rt_eps_zu_1, ZU<3>, 0, 32, 3, 1);
// @h rt_eps_d2_3 props=C02,C03,C05,C07 tier=quick kind=complete vars="v:D2, pos0=3" fns="derive:D2"
rt_eps!(rt_eps_d2_3, D2, 0, 64, 5, 3);
// @h rt_eps_e1_5 props=C02,C05,C07,C15 tier=quick kind=complete vars="v:E1, pos0=5" fns="derive:E1"
rt_eps!(rt_eps_e1_5, E1, 0, 48, 3, 5);
// @h rt_eps_g2_vec_1 props=C02,C03,C05,C07 tier=quick kind=bounded bound="len<=2" vars="v:G2<Vec<u16>,Option<u32>>, pos0=1" fns="derive:G2"
rt_eps!(rt_eps_g2_vec_1, G2<Vec<u16>, Option<u32>>, 2, 48, 4, 1);
// @h rt_eps_ge_2 props=C02,C05,C07,C15 tier=quick kind=complete vars="v:GE<Option<u8>>, pos0=2" fns="derive:GE"
rt_eps!(rt_eps_ge_2, GE<Option<u8>>, 0, 48, 3, 2);
// @h rt_eps_gm_1 props=C02,C03,C05,C07 tier=thorough kind=bounded bound="len<=2" vars="v:GM<u16>, pos0=1" fns="derive:GM"
rt_eps!(rt_eps_gm_1, GM<u16>, 2, 48, 4, 1);
// @h rt_eps_vec_u16_1 props=C02,C03,C07 tier=quick kind=bounded bound="len<=3" vars="v:Vec<u16>, pos0=1" fns="impls/vec.rs,deser/helpers.rs:deserialize_eps_slice_zero"
rt_eps!(rt_eps_vec_u16_1, Vec<u16>, 3, 48, 5, 1);
// @h rt_eps_box_u64_3 props=C02,C03,C07 tier=quick kind=bounded bound="len<=2" vars="v:Box<[u64]>, pos0=3" fns="impls/boxed_slice.rs,deser/helpers.rs:deserialize_eps_slice_zero"
rt_eps!(rt_eps_box_u64_3, Box<[u64]>, 2, 64, 9, 3);
// @h rt_eps_vec_opt_u8_1 props=C02,C07 tier=thorough kind=bounded bound="len<=3" vars="v:Vec<Option<u8>>, pos0=1" fns="deser/helpers.rs:deserialize_eps_vec_deep"
rt_eps!(rt_eps_vec_opt_u8_1, Vec<Option<u8>>, 3, 48, 5, 1);
// (Vec<Vec<u16>> in eps mode does not finish within the memory limit even for lengths <= 1: dropped)
// @h rt_eps_string_2 props=C02,C03,C07 tier=quick kind=bounded bound="len<=3, ASCII" vars="v:String, pos0=2" fns="impls/string.rs"
rt_eps_str!(rt_eps_string_2, String, 3, 48, 5, 2);
// @h rt_eps_vec_unit_1 props=C02,C03,C07 tier=quick kind=bounded bound="len<=3" vars="v:Vec<()>, pos0=1" fns="impls/vec.rs"
rt_eps!(rt_eps_vec_unit_1, Vec<()>, 3, 48, 5, 1);
// deep elements whose encoding is empty: the sequence is just its length word, so the item
// count exceeds the bytes that follow (added after seed C02-R9)
// @h rt_eps_vec_empty_deep_1 props=C02,C07 tier=thorough kind=bounded bound="len<=3" vars="v:Vec<[Option<u8>;0]>, pos0=1" fns="deser/helpers.rs:deserialize_eps_vec_deep,impls/array.rs:DeserializeHelper<Deep>"
rt_eps!(rt_eps_vec_empty_deep_1, Vec<[Option<u8>; 0]>, 3, 48, 5, 1);
// @h rt_eps_vec_z8_1 props=C02,C03,C05,C07 tier=thorough kind=bounded bound="len<=2" vars="v:Vec<Z8>, pos0=1" fns="impls/vec.rs,derive:Z8"
rt_eps!(rt_eps_vec_z8_1, Vec<Z8>, 2, 48, 5, 1);
// @h rt_eps_ed_3 props=C02,C05,C07,C15 tier=quick kind=complete vars="v:ED (explicit discriminants), pos0=3" fns="derive:ED"
rt_eps!(rt_eps_ed_3, ED, 0, 32, 3, 3);
// @h rt_eps_vec_zp_1 props=C02,C03,C05,C07 tier=quick kind=bounded bound="len<=1" vars="v:Vec<ZP> (packed), pos0=1" fns="ser/helpers.rs:serialize_slice_zero,deser/helpers.rs:deserialize_eps_slice_zero,derive:ZP"
rt_eps!(rt_eps_vec_zp_1, Vec<ZP>, 1, 48, 9, 1);
// @h rt_eps_g2_arr_z8_1 props=C02,C03,C05,C07 tier=quick kind=complete vars="v:G2<[u8;3],Z8> (a zero-copy array whose size is not a multiple of the next block's unit), pos0=1" fns="impls/array.rs:DeserializeHelper<Zero>::_deserialize_eps_inner_impl,derive:G2"
rt_eps!(rt_eps_g2_arr_z8_1, G2<[u8; 3], Z8>, 0, 48, 5, 1);
