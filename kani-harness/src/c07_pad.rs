//! C07: the padding formula and the alignment units (closed-term lemmas).

use crate::types::*;
use core::marker::PhantomData;
use core::mem::align_of;
use epserde::prelude::*;

// @h pad_formula props=C07 tier=quick kind=complete vars="value: usize (full domain), align_to = 2^k for every k<64" fns="lib.rs:pad_align_to"
#[kani::proof]
pub fn pad_formula() {
    let v: usize = kani::any();
    let k: u32 = kani::any();
    kani::assume(k < 64);
    let a = 1usize << k;
    let r = epserde::pad_align_to(v, a);
    assert!(r < a, "[C07/pad.range] the gap is smaller than the unit (hence the smallest)");
    let (s, wrapped) = v.overflowing_add(r);
    assert!(s & (a - 1) == 0, "[C07/pad.multiple] offset plus gap is a multiple of the unit");
    assert!(!wrapped || s == 0, "[C07/pad.wrap] the only wrapping case is the multiple 2^64");
    kani::cover!(r > 0, "[cover] non-zero padding reached");
}

fn pow2(x: usize) -> bool {
    x != 0 && x & (x - 1) == 0
}

macro_rules! unit_ok {
    ($t:ty $(, $f:ty)*) => {{
        let u = <$t as MaxSizeOf>::max_size_of();
        assert!(pow2(u), "[C07/unit.pow2] the alignment unit is a power of two");
        assert!(u >= align_of::<$t>(), "[C07/unit.native] the unit is no smaller than the native alignment");
        $( assert!(u >= <$f as MaxSizeOf>::max_size_of(), "[C07/unit.fields] the unit is no smaller than the unit of any field"); )*
    }};
}

macro_rules! unit_ok_derived {
    ($t:ty $(, $f:ty)*) => {{
        unit_ok!($t $(, $f)*);
        let u = <$t as MaxSizeOf>::max_size_of();
        assert!(pow2(u) && u >= align_of::<$t>(), "[C05/unit] the derived alignment unit is a power of two no smaller than the native alignment");
        $( assert!(u >= <$f as MaxSizeOf>::max_size_of(), "[C05/unit.fields] the derived alignment unit is no smaller than the unit of any field"); )*
    }};
}

// @h units_builtin props=C07 tier=quick kind=complete vars="closed terms: every primitive, non-zero, bool, char, (), PhantomData, RangeFull, RangeTo*, arrays, tuples" fns="impls/prim.rs:MaxSizeOf,impls/array.rs:MaxSizeOf,impls/tuple.rs:MaxSizeOf,impls/stdlib.rs:MaxSizeOf"
#[kani::proof]
pub fn units_builtin() {
    unit_ok!(u8); unit_ok!(u16); unit_ok!(u32); unit_ok!(u64); unit_ok!(u128); unit_ok!(usize);
    unit_ok!(i8); unit_ok!(i16); unit_ok!(i32); unit_ok!(i64); unit_ok!(i128); unit_ok!(isize);
    unit_ok!(f32); unit_ok!(f64); unit_ok!(bool); unit_ok!(char);
    unit_ok!(core::num::NonZeroU8); unit_ok!(core::num::NonZeroU64); unit_ok!(core::num::NonZeroI128);
    unit_ok!(()); unit_ok!(PhantomData<u64>); unit_ok!(core::ops::RangeFull);
    unit_ok!(core::ops::RangeTo<u32>, u32); unit_ok!(core::ops::RangeToInclusive<u64>, u64);
    unit_ok!([u32; 3], u32); unit_ok!([u128; 1], u128); unit_ok!([(); 4], ()); unit_ok!([u16; 0], u16);
    unit_ok!((u32,), u32); unit_ok!((u64, u64, u64), u64); unit_ok!(((), ()), ());
    unit_ok!([(u16, u16); 2], (u16, u16));
}

// @h units_derived props=C07,C05 tier=quick kind=complete vars="closed terms: Z8, Z32, ZT, ZU<3>, ZE (zero-copy enum), nm::base::Z, nm::repr::Z (derive output)" fns="derive:MaxSizeOf"
#[kani::proof]
pub fn units_derived() {
    unit_ok_derived!(Z8, u32, u16);
    unit_ok_derived!(Z32, u128, u64);
    unit_ok_derived!(ZT, Z8, [u16; 2]);
    unit_ok_derived!(ZU<3>);
    unit_ok_derived!([Z32; 2], Z32);
    unit_ok_derived!(ZE, u8, u16, bool);
    unit_ok_derived!(ZP, u8, u64);
    unit_ok_derived!(crate::nm::base::Z, u32, u16);
    unit_ok_derived!(crate::nm::repr::Z, u32, u16);
}
