//! C15: foreign tags are rejected with InvalidTag carrying exactly the tag.
//!
//! The tag byte (or word) is fully symbolic; the payload bytes after it are
//! symbolic too. Both deserializers are run on the same bytes.

use crate::lemmas::*;
use crate::refenc::*;
use crate::sinks::*;
use crate::types::*;
use core::ops::{Bound, ControlFlow};
use epserde::deser::{self, DeserializeInner, ReadNoStd, ReadWithPos, ReaderWithPos, SliceWithPos};

/// `NT` = number of valid one-byte tags (variants are numbered 0..NT).
macro_rules! tag_table_u8 {
    ($name:ident, $t:ty, $nt:expr) => {
        #[kani::proof]
        #[kani::unwind(3)]
        pub fn $name() {
            let buf: [u8; 16] = kani::any();
            let tag = buf[0];
            kani::assume(tag as usize >= $nt);
            // full copy, through the generic reader
            let mut src: &[u8] = &buf[..];
            let mut r = ReaderWithPos::new(&mut src);
            match <$t>::_deserialize_full_inner(&mut r) {
                Ok(_) => assert!(false, "[C15/foreign.full] a foreign tag is never mapped to a variant (full copy)"),
                Err(deser::Error::InvalidTag(t)) => assert!(t == tag as usize, "[C15/foreign.full.value] InvalidTag carries exactly the tag (full copy)"),
                Err(e) => { core::mem::forget(e); assert!(false, "[C15/foreign.full.kind] a foreign tag yields InvalidTag (full copy)") }
            };
            // eps copy
            let mut s = SliceWithPos { data: &buf[..], pos: 0 };
            match <$t>::_deserialize_eps_inner(&mut s) {
                Ok(_) => assert!(false, "[C15/foreign.eps] a foreign tag is never mapped to a variant (eps copy)"),
                Err(deser::Error::InvalidTag(t)) => assert!(t == tag as usize, "[C15/foreign.eps.value] InvalidTag carries exactly the tag (eps copy)"),
                Err(e) => { core::mem::forget(e); assert!(false, "[C15/foreign.eps.kind] a foreign tag yields InvalidTag (eps copy)") }
            };
            // and at the very end of the input (tag is the last byte)
            let mut s2 = SliceWithPos { data: &buf[..1], pos: 0 };
            match <$t>::_deserialize_eps_inner(&mut s2) {
                Ok(_) => assert!(false, "[C15/foreign.eps.last] a foreign tag in the last byte is never mapped to a variant"),
                Err(deser::Error::InvalidTag(t)) => assert!(t == tag as usize, "[C15/foreign.eps.last.value] InvalidTag carries exactly the tag (tag is the last byte)"),
                Err(e) => { core::mem::forget(e); assert!(false, "[C15/foreign.eps.last.kind] a foreign tag yields InvalidTag (tag is the last byte)") }
            };
            kani::cover!(true, "[cover] end of harness reached");
        }
    };
}
/// derived enums: pointer-width variant index
macro_rules! tag_table_usize {
    ($name:ident, $t:ty, $nt:expr) => {
        #[kani::proof]
        #[kani::unwind(3)]
        pub fn $name() {
            let buf: [u8; 24] = kani::any();
            let tag = usize::from_le_bytes([buf[0], buf[1], buf[2], buf[3], buf[4], buf[5], buf[6], buf[7]]);
            kani::assume(tag >= $nt);
            let mut src: &[u8] = &buf[..];
            let mut r = ReaderWithPos::new(&mut src);
            match <$t>::_deserialize_full_inner(&mut r) {
                Ok(_) => assert!(false, "[C15/foreign.full] a foreign tag is never mapped to a variant (full copy)"),
                Err(deser::Error::InvalidTag(t)) => assert!(t == tag, "[C15/foreign.full.value] InvalidTag carries exactly the tag (full copy)"),
                Err(e) => { core::mem::forget(e); assert!(false, "[C15/foreign.full.kind] a foreign tag yields InvalidTag (full copy)") }
            };
            let mut s = SliceWithPos { data: &buf[..], pos: 0 };
            match <$t>::_deserialize_eps_inner(&mut s) {
                Ok(_) => assert!(false, "[C15/foreign.eps] a foreign tag is never mapped to a variant (eps copy)"),
                Err(deser::Error::InvalidTag(t)) => assert!(t == tag, "[C15/foreign.eps.value] InvalidTag carries exactly the tag (eps copy)"),
                Err(e) => { core::mem::forget(e); assert!(false, "[C15/foreign.eps.kind] a foreign tag yields InvalidTag (eps copy)") }
            };
            kani::cover!(true, "[cover] end of harness reached");
        }
    };
}

// @h tag_table_option props=C15 tier=quick kind=complete vars="tag in [2,255], 15 payload bytes" fns="impls/prim.rs:Option::_deserialize_full_inner,impls/prim.rs:Option::_deserialize_eps_inner"
tag_table_u8!(tag_table_option, Option<u32>, 2);
// @h tag_table_bound props=C15 tier=quick kind=complete vars="tag in [3,255], 15 payload bytes" fns="impls/stdlib.rs:Bound"
tag_table_u8!(tag_table_bound, Bound<u16>, 3);
// @h tag_table_cf props=C15 tier=quick kind=complete vars="tag in [2,255], 15 payload bytes" fns="impls/stdlib.rs:ControlFlow"
tag_table_u8!(tag_table_cf, ControlFlow<u8, u16>, 2);
// @h tag_table_opt_opt props=C15 tier=quick kind=complete vars="outer tag in [2,255], 15 payload bytes" fns="impls/prim.rs:Option"
tag_table_u8!(tag_table_opt_opt, Option<Option<u8>>, 2);
// @h tag_table_e1 props=C15,C05 tier=quick kind=complete vars="tag word in [4,2^64), 16 payload bytes" fns="derive:E1"
tag_table_usize!(tag_table_e1, E1, 4);
// @h tag_table_ge props=C15,C05 tier=quick kind=complete vars="tag word in [3,2^64), 16 payload bytes" fns="derive:GE"
tag_table_usize!(tag_table_ge, GE<Option<u8>>, 3);

/// inner foreign tag: a valid outer tag followed by a foreign inner tag
// @h tag_table_inner props=C15 tier=quick kind=complete vars="outer tag=1, inner tag in [2,255]" fns="impls/prim.rs:Option"
#[kani::proof]
#[kani::unwind(3)]
pub fn tag_table_inner() {
    let mut buf: [u8; 8] = kani::any();
    buf[0] = 1;
    let tag = buf[1];
    kani::assume(tag >= 2);
    let mut s = SliceWithPos { data: &buf[..], pos: 0 };
    match <Option<Option<u8>>>::_deserialize_eps_inner(&mut s) {
        Err(deser::Error::InvalidTag(t)) => assert!(t == tag as usize, "[C15/foreign.inner.value] InvalidTag carries the inner tag"),
        Ok(_) => assert!(false, "[C15/foreign.inner] a foreign inner tag is never mapped to a variant"),
        Err(e) => { core::mem::forget(e); assert!(false, "[C15/foreign.inner.kind] a foreign inner tag yields InvalidTag") }
    };
}

/// a derived enum with more than 256 variants: the pointer-width variant index
/// is written and read back for every variant (also past 255), bytes equal to
/// the reference encoding, and the first foreign index is refused
// @h rt_full_ebig props=C15,C01,C05,C06 tier=quick kind=complete vars="v: any of the 260 variants of EBig, pos0<16" fns="derive:EBig (enum tags)"
#[kani::proof]
#[kani::unwind(3)]
pub fn rt_full_ebig() {
    let v = <crate::big::EBig as Sym>::sym(0);
    let pos0: usize = kani::any();
    kani::assume(pos0 < MAX_PREFIX);
    lemma_rt_full::<crate::big::EBig, 32>(&v, pos0);
}
// @h tag_table_ebig props=C15,C05 tier=quick kind=complete vars="tag word: any u64 (260 valid, all others foreign)" fns="derive:EBig (enum tags)"
#[kani::proof]
#[kani::unwind(3)]
pub fn tag_table_ebig() {
    use crate::big::*;
    let tag: u64 = kani::any();
    let bytes = tag.to_le_bytes();
    let mut src: &[u8] = &bytes[..];
    let mut rd = ReaderWithPos::new(&mut src);
    match <EBig>::_deserialize_full_inner(&mut rd) {
        Ok(v) => {
            assert!(tag < 260, "[C15/foreign.full] a foreign variant index is never mapped to a variant (full copy)");
            assert!(v as usize as u64 == tag, "[C15/tag.value] variant i is read from index i");
        }
        Err(deser::Error::InvalidTag(t)) => {
            assert!(tag >= 260, "[C15/valid.full] every written variant index is accepted (full copy)");
            assert!(t as u64 == tag, "[C15/foreign.value] the error carries the offending index");
        }
        Err(e) => { core::mem::forget(e); assert!(false, "[C15/foreign.kind] a foreign index is reported as an invalid tag") }
    };
    let mut s = SliceWithPos { data: &bytes[..], pos: 0 };
    match <EBig>::_deserialize_eps_inner(&mut s) {
        Ok(v) => {
            assert!(tag < 260, "[C15/foreign.eps] a foreign variant index is never mapped to a variant (eps copy)");
            assert!(v as usize as u64 == tag, "[C15/tag.value] variant i is read from index i");
        }
        Err(deser::Error::InvalidTag(t)) => {
            assert!(tag >= 260, "[C15/valid.eps] every written variant index is accepted (eps copy)");
            assert!(t as u64 == tag, "[C15/foreign.value] the error carries the offending index");
        }
        Err(e) => { core::mem::forget(e); assert!(false, "[C15/foreign.kind] a foreign index is reported as an invalid tag") }
    };
}
