// placeholder: concrete playback tests are written here at run time (work copy only)
