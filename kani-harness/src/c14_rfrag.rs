//! C14: reader fragmentation does not change the value; reader failure is an
//! error, without panics and without memory corruption through partially
//! built values.

use crate::lemmas::*;
use crate::refenc::*;
use crate::sinks::*;
use crate::types::*;
use epserde::deser::{self, DeserializeInner, ReadNoStd, ReadWithPos, ReaderWithPos};

macro_rules! rfrag {
    ($name:ident, $t:ty, $bound:expr, $cap:expr, $unw:expr) => {
        #[kani::proof]
        #[kani::unwind($unw)]
        #[kani::stub(std::string::String::from_utf8, crate::lemmas::stub_from_utf8)]
        pub fn $name() {
            let v = <$t as Sym>::sym($bound);
            let mut sink = ArrSink::<$cap>::new();
            let (r, _) = ser_at(&v, 0, &mut sink);
            assert!(r.is_ok(), "[C01/ser.ok] serialization into an infallible sink succeeds");
            let n = sink.len;
            // fragmentation plan: 3 planned calls (0 = Interrupted), then one byte per call
            let plan: [u8; 3] = kani::any();
            kani::assume(plan[0] != 0 || plan[1] != 0);
            let fail_at: usize = kani::any();
            let mut src = ChunkReader::<3>::new(&sink.buf[..n], plan, fail_at);
            let mut rd = ReaderWithPos::new(&mut src);
            match <$t>::_deserialize_full_inner(&mut rd) {
                Ok(d) => {
                    assert!(fail_at >= n, "[C14/fail.never_ok] a reader that fails before the end never yields a value");
                    assert!(d.keq(&v), "[C14/frag.value] fragmentation does not change the value");
                    assert!(rd.pos() == n, "[C14/frag.pos] the reader position equals the bytes delivered");
                }
                Err(deser::Error::ReadError) => {
                    assert!(fail_at < n, "[C14/frag.ok] without a reader failure deserialization succeeds");
                }
                Err(e) => { core::mem::forget(e); assert!(false, "[C14/fail.kind] a reader failure is reported as a read error") }
            };
            kani::cover!(fail_at < n && fail_at > 0, "[cover] failure in the middle reached");
            kani::cover!(fail_at >= n, "[cover] fault-free fragmented run reached");
        }
    };
}

// @h rfrag_u32 props=C14 tier=quick kind=complete vars="v:u32, chunk plan[3] (0=Interrupted), failure position (any)" fns="deser/read.rs:impl ReadNoStd for Read,deser/reader_with_pos.rs:read_exact"
rfrag!(rfrag_u32, u32, 0, 16, 8);
// @h rfrag_opt_u16 props=C14 tier=quick kind=complete vars="v:Option<u16>, plan[3], failure position" fns="impls/prim.rs:Option"
rfrag!(rfrag_opt_u16, Option<u16>, 0, 16, 8);
// @h rfrag_arr_opt_2 props=C14 tier=thorough kind=complete vars="v:[Option<u8>;2], plan[3], failure position" fns="impls/array.rs:DeserializeHelper<Deep>::_deserialize_full_inner_impl"
rfrag!(rfrag_arr_opt_2, [Option<u8>; 2], 0, 16, 8);
// @h rfrag_arr_u16_3 props=C14 tier=quick kind=complete vars="v:[u16;3], plan[3], failure position" fns="impls/array.rs:DeserializeHelper<Zero>::_deserialize_full_inner_impl"
rfrag!(rfrag_arr_u16_3, [u16; 3], 0, 16, 10);
// @h rfrag_vec_u16 props=C14 tier=thorough kind=bounded bound="len<=2" vars="v:Vec<u16>, plan[3], failure position" fns="deser/helpers.rs:deserialize_full_vec_zero"
rfrag!(rfrag_vec_u16, Vec<u16>, 2, 32, 12);
// @h rfrag_vec_opt_u8 props=C14 tier=thorough kind=bounded bound="len<=2" vars="v:Vec<Option<u8>>, plan[3], failure position" fns="deser/helpers.rs:deserialize_full_vec_deep"
rfrag!(rfrag_vec_opt_u8, Vec<Option<u8>>, 2, 32, 12);
// @h rfrag_dt props=C14,C05 tier=thorough kind=complete vars="v:DT, plan[3], failure position" fns="derive:DT"
rfrag!(rfrag_dt, DT, 0, 16, 8);
// @h rfrag_vec_string props=C14 tier=thorough kind=bounded bound="outer<=2, inner<=1 ASCII" vars="v:Vec<String> (heap-owning items dropped on failure), plan[3], failure position" fns="deser/helpers.rs:deserialize_full_vec_deep,impls/string.rs"
rfrag!(rfrag_vec_string, Vec<String>, 2, 48, 12);

/// deep vector whose elements own heap memory: on a reader failure the
/// partially built vector is dropped (CBMC flags frees of uninitialised or
/// already freed memory). Cheaper than `rfrag`: the reader fails at a symbolic
/// position but does not fragment.
// @h rfail_vec_vec_u8 props=C14 tier=quick kind=bounded bound="outer len=2, inner len<=1" vars="v:Vec<Vec<u8>>, failure position (any)" fns="deser/helpers.rs:deserialize_full_vec_deep,deser/helpers.rs:deserialize_full_vec_zero"
#[kani::proof]
#[kani::unwind(5)]
pub fn rfail_vec_vec_u8() {
    let mut v: Vec<Vec<u8>> = Vec::with_capacity(2);
    v.push(<Vec<u8>>::sym(1));
    v.push(<Vec<u8>>::sym(1));
    let mut sink = ArrSink::<48>::new();
    let (r, _) = ser_at(&v, 0, &mut sink);
    assert!(r.is_ok(), "[C01/ser.ok] serialization into an infallible sink succeeds");
    let n = sink.len;
    let fail_at: usize = kani::any();
    let mut src = FailingReader { data: &sink.buf[..n], off: 0, fail_at };
    let mut rd = ReaderWithPos::new(&mut src);
    match <Vec<Vec<u8>>>::_deserialize_full_inner(&mut rd) {
        Ok(d) => {
            assert!(fail_at >= n, "[C14/fail.never_ok] a reader that fails before the end never yields a value");
            assert!(d.keq(&v), "[C14/frag.value] the value is the original");
        }
        Err(deser::Error::ReadError) => assert!(fail_at < n, "[C14/frag.ok] without a reader failure deserialization succeeds"),
        Err(e) => { core::mem::forget(e); assert!(false, "[C14/fail.kind] a reader failure is reported as a read error") }
    };
    kani::cover!(fail_at < n && fail_at > 8, "[cover] failure after the length word reached");
}
