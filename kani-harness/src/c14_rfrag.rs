//! C14: reader fragmentation does not change the value; reader failure is an
//! error, without panics and without memory corruption through partially
//! built values.

use crate::lemmas::*;
use crate::refenc::*;
use crate::sinks::*;
use crate::types::*;
use epserde::deser::{self, DeserializeInner, ReadNoStd, ReadWithPos, ReaderWithPos};

macro_rules! rfrag {
    ($name:ident, $t:ty, $bound:expr, $cap:expr, $unw:expr) => {
        #[kani::proof]
        #[kani::unwind($unw)]
        #[kani::stub(std::string::String::from_utf8, crate::lemmas::stub_from_utf8)]
        pub fn $name() {
            let v = <$t as Sym>::sym($bound);
            let mut sink = ArrSink::<$cap>::new();
            let (r, _) = ser_at(&v, 0, &mut sink);
            assert!(r.is_ok(), "[C01/ser.ok] serialization into an infallible sink succeeds");
            let n = sink.len;
            // fragmentation plan: 3 planned calls (0 = Interrupted), then one byte per call
            let plan: [u8; 3] = kani::any();
            kani::assume(plan[0] != 0 || plan[1] != 0);
            let fail_at: usize = kani::any();
            let mut src = ChunkReader::<3>::new(&sink.buf[..n], plan, fail_at);
            let mut rd = ReaderWithPos::new(&mut src);
            match <$t>::_deserialize_full_inner(&mut rd) {
                Ok(d) => {
                    assert!(fail_at >= n, "[C14/fail.never_ok] a reader that fails before the end never yields a value");
                    assert!(d.keq(&v), "[C14/frag.value] fragmentation does not change the value");
                    assert!(rd.pos() == n, "[C14/frag.pos] the reader position equals the bytes delivered");
                }
                Err(deser::Error::ReadError) => {
                    assert!(fail_at < n, "[C14/frag.ok] without a reader failure deserialization succeeds");
                }
                Err(e) => { core::mem::forget(e); assert!(false, "[C14/fail.kind] a reader failure is reported as a read error") }
            };
            kani::cover!(fail_at < n && fail_at > 0, "[cover] failure in the middle reached");
            kani::cover!(fail_at >= n, "[cover] fault-free fragmented run reached");
        }
    };
}

// @h rfrag_u32 props=C14 tier=quick kind=complete vars="v:u32, chunk plan[3] (0=Interrupted), failure position (any)" fns="deser/read.rs:impl ReadNoStd for Read,deser/reader_with_pos.rs:read_exact"
rfrag!(rfrag_u32, u32, 0, 16, 8);
// @h rfrag_opt_u16 props=C14 tier=quick kind=complete vars="v:Option<u16>, plan[3], failure position" fns="impls/prim.rs:Option"
rfrag!(rfrag_opt_u16, Option<u16>, 0, 16, 8);
// @h rfrag_arr_opt_2 props=C14 tier=thorough kind=complete vars="v:[Option<u8>;2], plan[3], failure position" fns="impls/array.rs:DeserializeHelper<Deep>::_deserialize_full_inner_impl"
rfrag!(rfrag_arr_opt_2, [Option<u8>; 2], 0, 16, 8);
// @h rfrag_arr_u16_3 props=C14 tier=quick kind=complete vars="v:[u16;3], plan[3], failure position" fns="impls/array.rs:DeserializeHelper<Zero>::_deserialize_full_inner_impl"
rfrag!(rfrag_arr_u16_3, [u16; 3], 0, 16, 10);
// @h rfrag_vec_u16 props=C14 tier=thorough kind=bounded bound="len<=2" vars="v:Vec<u16>, plan[3], failure position" fns="deser/helpers.rs:deserialize_full_vec_zero"
rfrag!(rfrag_vec_u16, Vec<u16>, 2, 32, 12);
// (fragmented reads of Vec<Option<u8>> and Vec<String> exceed the memory limit: dropped; deep vectors under a
// failing reader are covered by rfail_vec_tracked, fragmentation by the fixed-size types and Vec<u16>)
// @h rfrag_dt props=C14,C05 tier=thorough kind=complete vars="v:DT, plan[3], failure position" fns="derive:DT"
rfrag!(rfrag_dt, DT, 0, 16, 8);

/// A deep-copy element type whose destructor checks that the value was really
/// built (a marker written by its deserializer): dropping a slot of a partially
/// built vector that was never written fails the assertion (the memory is
/// uninitialised, i.e. arbitrary for CBMC). No heap involved, so it is cheap.
pub struct Tracked {
    pub magic: u32,
    pub x: u32,
}
const BUILT: u32 = 0x5AFE_B17D;
impl Drop for Tracked {
    fn drop(&mut self) {
        assert!(self.magic == BUILT, "[C14/drop.built] only values that were completely built are ever dropped");
    }
}
impl epserde::traits::CopyType for Tracked {
    type Copy = epserde::traits::Deep;
}
impl DeserializeInner for Tracked {
    type DeserType<'a> = Tracked;
    fn _deserialize_full_inner(backend: &mut impl ReadWithPos) -> deser::Result<Self> {
        let x = u32::_deserialize_full_inner(backend)?;
        Ok(Tracked { magic: BUILT, x })
    }
    fn _deserialize_eps_inner<'a>(backend: &mut epserde::deser::SliceWithPos<'a>) -> deser::Result<Self> {
        let x = u32::_deserialize_eps_inner(backend)?;
        Ok(Tracked { magic: BUILT, x })
    }
}

// @h rfail_vec_tracked props=C14 tier=quick kind=bounded bound="len<=3" vars="stream: len<=3 then symbolic items; reader failure position (any)" fns="deser/helpers.rs:deserialize_full_vec_deep,impls/vec.rs:DeserializeHelper<Deep>"
#[kani::proof]
#[kani::unwind(6)]
pub fn rfail_vec_tracked() {
    let mut buf: [u8; 20] = kani::any();
    let len: usize = kani::any();
    kani::assume(len <= 3);
    buf[..8].copy_from_slice(&len.to_le_bytes());
    let n = 8 + 4 * len;
    let fail_at: usize = kani::any();
    let mut src = FailingReader { data: &buf[..n], off: 0, fail_at };
    let mut rd = ReaderWithPos::new(&mut src);
    match <Vec<Tracked>>::_deserialize_full_inner(&mut rd) {
        Ok(d) => {
            assert!(fail_at >= n, "[C14/fail.never_ok] a reader that fails before the end never yields a value");
            assert!(d.len() == len, "[C14/frag.value] the vector has the announced length");
        }
        Err(deser::Error::ReadError) => assert!(fail_at < n, "[C14/frag.ok] without a reader failure deserialization succeeds"),
        Err(e) => { core::mem::forget(e); assert!(false, "[C14/fail.kind] a reader failure is reported as a read error") }
    };
    kani::cover!(fail_at < n && fail_at > 12, "[cover] failure after the first item reached");
}

/// the same for arrays of deep elements (built in place in uninitialised memory)
// @h rfail_arr_tracked props=C14 tier=quick kind=complete vars="stream: 3 symbolic items; reader failure position (any)" fns="impls/array.rs:DeserializeHelper<Deep>::_deserialize_full_inner_impl"
#[kani::proof]
#[kani::unwind(6)]
pub fn rfail_arr_tracked() {
    let buf: [u8; 12] = kani::any();
    let fail_at: usize = kani::any();
    let mut src = FailingReader { data: &buf[..], off: 0, fail_at };
    let mut rd = ReaderWithPos::new(&mut src);
    match <[Tracked; 3]>::_deserialize_full_inner(&mut rd) {
        Ok(_) => assert!(fail_at >= 12, "[C14/fail.never_ok] a reader that fails before the end never yields a value"),
        Err(deser::Error::ReadError) => assert!(fail_at < 12, "[C14/frag.ok] without a reader failure deserialization succeeds"),
        Err(e) => { core::mem::forget(e); assert!(false, "[C14/fail.kind] a reader failure is reported as a read error") }
    };
}

/// the entry point (header included): a reader that fails at any position of the
/// stream - also inside the header's type-name string, also when the type has
/// no payload bytes at all - makes `deserialize_full` fail with a read error
macro_rules! rfail_entry {
    ($name:ident, $t:ty, $cap:expr, $unw:expr) => {
        #[kani::proof]
        #[kani::unwind($unw)]
        #[kani::stub(std::string::String::from_utf8, crate::lemmas::stub_from_utf8)]
        pub fn $name() {
            use epserde::deser::Deserialize;
            use epserde::ser::Serialize;
            let v = <$t as Sym>::sym(0);
            let mut sink = ArrSink::<$cap>::new();
            let r = v.serialize(&mut sink);
            assert!(r.is_ok(), "[C01/ser.ok] serialization into an infallible sink succeeds");
            core::mem::forget(r);
            let n = sink.len;
            let k: usize = kani::any();
            kani::assume(k < n);
            // persistent failure = truncated stream
            let mut src = FailingReader { data: &sink.buf[..n], off: 0, fail_at: k };
            match <$t>::deserialize_full(&mut src) {
                Ok(_) => {
                    assert!(false, "[C14/fail.never_ok] a reader that fails before the end never yields a value");
                    assert!(false, "[C11/full.never_ok] a strict prefix is never full-copy deserialized into a value");
                }
                Err(deser::Error::ReadError) => {}
                Err(e) => { core::mem::forget(e); assert!(false, "[C14/fail.kind] a reader failure is reported as a read error") }
            };
            // transient failure: one refused request, then the reader serves again
            let mut once = OnceFailingReader { data: &sink.buf[..n], off: 0, fail_at: k, failed: false };
            match <$t>::deserialize_full(&mut once) {
                Ok(_) => assert!(false, "[C14/fail.never_ok] a reader that fails before the end never yields a value"),
                Err(deser::Error::ReadError) => {}
                Err(e) => { core::mem::forget(e); assert!(false, "[C14/fail.kind] a reader failure is reported as a read error") }
            };
            kani::cover!(k >= 29, "[cover] failure inside the type-name string or the payload reached");
        }
    };
}
// @h rfail_entry_unit props=C14,C11 tier=quick kind=complete vars="v:() (no payload bytes) through deserialize_full; failure position k<len (any), persistent and transient" fns="deser/mod.rs:deserialize_full,deser/mod.rs:check_header"
rfail_entry!(rfail_entry_unit, (), 64, 12);
// @h rfail_entry_u8 props=C14,C11 tier=quick kind=complete vars="v:u8 through deserialize_full; failure position k<len (any), persistent and transient" fns="deser/mod.rs:deserialize_full,deser/mod.rs:check_header"
rfail_entry!(rfail_entry_u8, u8, 64, 12);
