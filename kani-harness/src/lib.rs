//! Lemma harnesses over the real epserde crate (path dependency on /repo).
#![allow(dead_code, unused_imports, unused_macros, clippy::all)]
pub mod lemmas;
pub mod refenc;
pub mod sinks;
pub mod types;

#[cfg(kani)]
mod c01_rt;
#[cfg(kani)]
mod c02_eps;
