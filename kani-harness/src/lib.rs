//! Lemma harnesses over the real epserde crate (path dependency on /repo).
#![allow(dead_code, unused_imports, unused_macros, clippy::all)]
pub mod lemmas;
pub mod refenc;
pub mod sinks;
pub mod types;
pub mod nm;
pub mod big;

#[cfg(kani)]
pub mod c01_rt;
#[cfg(kani)]
pub mod c02_eps;
#[cfg(kani)]
pub mod c15_tags;
#[cfg(kani)]
pub mod c04_hash;
#[cfg(kani)]
pub mod c05_subst;
#[cfg(kani)]
pub mod c07_pad;
#[cfg(kani)]
pub mod c10_header;
#[cfg(kani)]
pub mod c11_trunc;
#[cfg(kani)]
pub mod c12_place;
#[cfg(kani)]
pub mod c13_wfail;
#[cfg(kani)]
pub mod c14_rfrag;
#[cfg(kani)]
pub mod c16_slices;
#[cfg(kani)]
pub mod c17_zero;
#[cfg(kani)]
pub mod c18_schema;
#[cfg(kani)]
pub mod c19_cursor;

// Filled in (in the work copy only) by /verif/check when it replays a
// counterexample: Kani's concrete-playback unit tests.
#[cfg(kani)]
#[cfg(test)]
mod pb;
