//! Independent reference encoder for format 1.1 ("spec functions, executable").
//!
//! Written from the format description (see /verif/contracts/FORMAT.md), not
//! from epserde's serializers: it never calls `_serialize_inner`,
//! `to_ne_bytes`, `pad_align_to`, `max_size_of` or any other epserde function.
//! It targets the verification image: 64-bit, little-endian.
//!
//! Besides the bytes it records the list of zero-copy blocks
//! `(offset, unit, len)` so harnesses can talk about placement.

use core::marker::PhantomData;
use core::num::*;
use core::ops::{Bound, ControlFlow};

#[cfg(not(all(target_endian = "little", target_pointer_width = "64")))]
compile_error!("reference encoder is written for 64-bit little-endian targets");

pub const MAX_BLOCKS: usize = 8;

#[derive(Clone, Copy, PartialEq, Eq, Debug)]
pub struct Block {
    pub off: usize,
    pub unit: usize,
    pub len: usize,
}

pub struct RefOut<const N: usize> {
    pub buf: [u8; N],
    /// bytes stored in `buf`
    pub len: usize,
    /// stream offset of `buf[0]` (the encoder may start mid-stream; the bytes
    /// before it are not stored, only counted)
    pub base: usize,
    pub blocks: [Block; MAX_BLOCKS],
    pub nblocks: usize,
}

impl<const N: usize> RefOut<N> {
    pub fn new() -> Self {
        Self {
            // zero-initialised and only ever written forwards, so padding and
            // prefix regions need no loop (symbolic loop bounds do not unwind)
            buf: [0; N],
            len: 0,
            base: 0,
            blocks: [Block {
                off: 0,
                unit: 0,
                len: 0,
            }; MAX_BLOCKS],
            nblocks: 0,
        }
    }
    pub fn bytes(&self) -> &[u8] {
        &self.buf[..self.len]
    }
    pub fn put(&mut self, b: u8) {
        assert!(self.len < N, "[harness] RefOut too small");
        self.buf[self.len] = b;
        self.len += 1;
    }
    pub fn put_all(&mut self, b: &[u8]) {
        let mut i = 0;
        while i < b.len() {
            self.put(b[i]);
            i += 1;
        }
    }
    /// little-endian integer of `n` bytes (n <= 16); unrolled so that harness
    /// unwinding bounds are dictated by the code under verification only
    pub fn put_le(&mut self, v: u128, n: usize) {
        macro_rules! byte {
            ($($i:expr),*) => {$( if n > $i { self.put(((v >> (8 * $i)) & 0xff) as u8); } )*};
        }
        byte!(0, 1, 2, 3, 4, 5, 6, 7, 8, 9, 10, 11, 12, 13, 14, 15);
    }
    /// the smallest zero gap that brings the offset to a multiple of `unit`
    pub fn pad_to(&mut self, unit: usize) {
        assert!(unit > 0);
        let gap = (unit - (self.base + self.len) % unit) % unit;
        assert!(self.len + gap <= N, "[harness] RefOut too small");
        self.len += gap; // the skipped bytes are still zero
    }
    /// start encoding at stream offset `n` (must be called first)
    pub fn start_at(&mut self, n: usize) {
        assert!(self.len == 0);
        self.base = n;
    }
    /// current stream offset
    pub fn pos(&self) -> usize {
        self.base + self.len
    }
    /// open a zero-copy block of `len` bytes with alignment unit `unit`:
    /// pads, records the block, and leaves the caller to emit the bytes.
    pub fn block(&mut self, unit: usize, len: usize) {
        self.pad_to(unit);
        assert!(self.nblocks < MAX_BLOCKS, "[harness] too many blocks");
        self.blocks[self.nblocks] = Block {
            off: self.base + self.len,
            unit,
            len,
        };
        self.nblocks += 1;
    }
}

/// The published encoding of a value *in isolation* (as a field or as the root).
pub trait RefEnc {
    /// encoding as a standalone value / deep field
    fn enc<const N: usize>(&self, o: &mut RefOut<N>);
    /// alignment unit of the type when it is the element of a zero-copy block
    /// (None for deep-copy types)
    fn unit() -> Option<usize>;
    /// in-memory representation, as written inside a zero-copy block
    /// (only meaningful when `unit()` is `Some`)
    fn raw<const N: usize>(&self, _o: &mut RefOut<N>) {
        unreachable!()
    }
    /// size in bytes of `raw`
    fn raw_size() -> usize {
        unreachable!()
    }
}

/// Bit-for-bit equality (floats by bits).
pub trait KEq {
    fn keq(&self, other: &Self) -> bool;
}

macro_rules! prim_int {
    ($($t:ty : $n:expr),*) => {$(
        impl RefEnc for $t {
            fn enc<const N: usize>(&self, o: &mut RefOut<N>) { o.put_le(*self as u128, $n); }
            fn unit() -> Option<usize> { Some($n) }
            fn raw<const N: usize>(&self, o: &mut RefOut<N>) { o.put_le(*self as u128, $n); }
            fn raw_size() -> usize { $n }
        }
        impl KEq for $t { fn keq(&self, o: &Self) -> bool { *self == *o } }
    )*};
}
prim_int!(u8:1, u16:2, u32:4, u64:8, u128:16, usize:8, i8:1, i16:2, i32:4, i64:8, i128:16, isize:8);

macro_rules! prim_nz {
    ($($t:ty : $n:expr),*) => {$(
        impl RefEnc for $t {
            fn enc<const N: usize>(&self, o: &mut RefOut<N>) { o.put_le(self.get() as u128, $n); }
            fn unit() -> Option<usize> { Some($n) }
            fn raw<const N: usize>(&self, o: &mut RefOut<N>) { o.put_le(self.get() as u128, $n); }
            fn raw_size() -> usize { $n }
        }
        impl KEq for $t { fn keq(&self, o: &Self) -> bool { self.get() == o.get() } }
    )*};
}
prim_nz!(NonZeroU8:1, NonZeroU16:2, NonZeroU32:4, NonZeroU64:8, NonZeroU128:16, NonZeroUsize:8,
         NonZeroI8:1, NonZeroI16:2, NonZeroI32:4, NonZeroI64:8, NonZeroI128:16, NonZeroIsize:8);

impl RefEnc for f32 {
    fn enc<const N: usize>(&self, o: &mut RefOut<N>) {
        o.put_le(self.to_bits() as u128, 4);
    }
    fn unit() -> Option<usize> {
        Some(4)
    }
    fn raw<const N: usize>(&self, o: &mut RefOut<N>) {
        o.put_le(self.to_bits() as u128, 4);
    }
    fn raw_size() -> usize {
        4
    }
}
impl KEq for f32 {
    fn keq(&self, o: &Self) -> bool {
        self.to_bits() == o.to_bits()
    }
}
impl RefEnc for f64 {
    fn enc<const N: usize>(&self, o: &mut RefOut<N>) {
        o.put_le(self.to_bits() as u128, 8);
    }
    fn unit() -> Option<usize> {
        Some(8)
    }
    fn raw<const N: usize>(&self, o: &mut RefOut<N>) {
        o.put_le(self.to_bits() as u128, 8);
    }
    fn raw_size() -> usize {
        8
    }
}
impl KEq for f64 {
    fn keq(&self, o: &Self) -> bool {
        self.to_bits() == o.to_bits()
    }
}

impl RefEnc for bool {
    fn enc<const N: usize>(&self, o: &mut RefOut<N>) {
        o.put(if *self { 1 } else { 0 });
    }
    fn unit() -> Option<usize> {
        Some(1)
    }
    fn raw<const N: usize>(&self, o: &mut RefOut<N>) {
        o.put(if *self { 1 } else { 0 });
    }
    fn raw_size() -> usize {
        1
    }
}
impl KEq for bool {
    fn keq(&self, o: &Self) -> bool {
        *self == *o
    }
}

impl RefEnc for char {
    fn enc<const N: usize>(&self, o: &mut RefOut<N>) {
        o.put_le(*self as u32 as u128, 4);
    }
    fn unit() -> Option<usize> {
        Some(4)
    }
    fn raw<const N: usize>(&self, o: &mut RefOut<N>) {
        o.put_le(*self as u32 as u128, 4);
    }
    fn raw_size() -> usize {
        4
    }
}
impl KEq for char {
    fn keq(&self, o: &Self) -> bool {
        *self == *o
    }
}

impl RefEnc for () {
    fn enc<const N: usize>(&self, _o: &mut RefOut<N>) {}
    // A zero-sized type occupies no bytes; its unit is the neutral unit 1
    // (a unit must be a power of two, C07).
    fn unit() -> Option<usize> {
        Some(1)
    }
    fn raw<const N: usize>(&self, _o: &mut RefOut<N>) {}
    fn raw_size() -> usize {
        0
    }
}
impl KEq for () {
    fn keq(&self, _o: &Self) -> bool {
        true
    }
}

impl<T> RefEnc for PhantomData<T> {
    fn enc<const N: usize>(&self, _o: &mut RefOut<N>) {}
    fn unit() -> Option<usize> {
        Some(1)
    }
    fn raw<const N: usize>(&self, _o: &mut RefOut<N>) {}
    fn raw_size() -> usize {
        0
    }
}
impl<T> KEq for PhantomData<T> {
    fn keq(&self, _o: &Self) -> bool {
        true
    }
}

// ---- one-byte tagged sums -------------------------------------------------

impl<T: RefEnc> RefEnc for Option<T> {
    fn enc<const N: usize>(&self, o: &mut RefOut<N>) {
        match self {
            None => o.put(0),
            Some(v) => {
                o.put(1);
                v.enc(o)
            }
        }
    }
    fn unit() -> Option<usize> {
        None
    }
}
impl<T: KEq> KEq for Option<T> {
    fn keq(&self, o: &Self) -> bool {
        match (self, o) {
            (None, None) => true,
            (Some(a), Some(b)) => a.keq(b),
            _ => false,
        }
    }
}

impl<T: RefEnc> RefEnc for Bound<T> {
    fn enc<const N: usize>(&self, o: &mut RefOut<N>) {
        match self {
            Bound::Unbounded => o.put(0),
            Bound::Included(v) => {
                o.put(1);
                v.enc(o)
            }
            Bound::Excluded(v) => {
                o.put(2);
                v.enc(o)
            }
        }
    }
    fn unit() -> Option<usize> {
        None
    }
}
impl<T: KEq> KEq for Bound<T> {
    fn keq(&self, o: &Self) -> bool {
        match (self, o) {
            (Bound::Unbounded, Bound::Unbounded) => true,
            (Bound::Included(a), Bound::Included(b)) => a.keq(b),
            (Bound::Excluded(a), Bound::Excluded(b)) => a.keq(b),
            _ => false,
        }
    }
}

impl<B: RefEnc, C: RefEnc> RefEnc for ControlFlow<B, C> {
    fn enc<const N: usize>(&self, o: &mut RefOut<N>) {
        match self {
            ControlFlow::Break(v) => {
                o.put(0);
                v.enc(o)
            }
            ControlFlow::Continue(v) => {
                o.put(1);
                v.enc(o)
            }
        }
    }
    fn unit() -> Option<usize> {
        None
    }
}
impl<B: KEq, C: KEq> KEq for ControlFlow<B, C> {
    fn keq(&self, o: &Self) -> bool {
        match (self, o) {
            (ControlFlow::Break(a), ControlFlow::Break(b)) => a.keq(b),
            (ControlFlow::Continue(a), ControlFlow::Continue(b)) => a.keq(b),
            _ => false,
        }
    }
}

// ---- ranges: fields in declaration order, each encoded as a field ---------

impl<T: RefEnc> RefEnc for core::ops::Range<T> {
    fn enc<const N: usize>(&self, o: &mut RefOut<N>) {
        self.start.enc(o);
        self.end.enc(o);
    }
    fn unit() -> Option<usize> {
        None
    }
}
impl<T: KEq> KEq for core::ops::Range<T> {
    fn keq(&self, o: &Self) -> bool {
        self.start.keq(&o.start) && self.end.keq(&o.end)
    }
}
impl<T: RefEnc> RefEnc for core::ops::RangeFrom<T> {
    fn enc<const N: usize>(&self, o: &mut RefOut<N>) {
        self.start.enc(o);
    }
    fn unit() -> Option<usize> {
        None
    }
}
impl<T: KEq> KEq for core::ops::RangeFrom<T> {
    fn keq(&self, o: &Self) -> bool {
        self.start.keq(&o.start)
    }
}
impl<T: RefEnc> RefEnc for core::ops::RangeTo<T> {
    fn enc<const N: usize>(&self, o: &mut RefOut<N>) {
        self.end.enc(o);
    }
    fn unit() -> Option<usize> {
        None
    }
}
impl<T: KEq> KEq for core::ops::RangeTo<T> {
    fn keq(&self, o: &Self) -> bool {
        self.end.keq(&o.end)
    }
}
impl<T: RefEnc> RefEnc for core::ops::RangeToInclusive<T> {
    fn enc<const N: usize>(&self, o: &mut RefOut<N>) {
        self.end.enc(o);
    }
    fn unit() -> Option<usize> {
        None
    }
}
impl<T: KEq> KEq for core::ops::RangeToInclusive<T> {
    fn keq(&self, o: &Self) -> bool {
        self.end.keq(&o.end)
    }
}
/// Non-exhausted inclusive ranges only (the excluded values of C01).
impl<T: RefEnc> RefEnc for core::ops::RangeInclusive<T> {
    fn enc<const N: usize>(&self, o: &mut RefOut<N>) {
        self.start().enc(o);
        self.end().enc(o);
        o.put(0); // exhausted = false
    }
    fn unit() -> Option<usize> {
        None
    }
}
impl<T: KEq> KEq for core::ops::RangeInclusive<T> {
    fn keq(&self, o: &Self) -> bool {
        self.start().keq(o.start()) && self.end().keq(o.end())
    }
}
impl RefEnc for core::ops::RangeFull {
    fn enc<const N: usize>(&self, _o: &mut RefOut<N>) {}
    fn unit() -> Option<usize> {
        None
    }
}
impl KEq for core::ops::RangeFull {
    fn keq(&self, _o: &Self) -> bool {
        true
    }
}

// ---- sequences --------------------------------------------------------------

/// length-prefixed sequence: pointer-width length; zero-copy elements as one
/// padded block of raw representations, deep elements one after the other.
pub fn enc_seq<T: RefEnc, const N: usize>(s: &[T], o: &mut RefOut<N>) {
    o.put_le(s.len() as u128, 8);
    match T::unit() {
        Some(u) => {
            o.block(u, s.len() * T::raw_size());
            let mut i = 0;
            while i < s.len() {
                s[i].raw(o);
                i += 1;
            }
        }
        None => {
            let mut i = 0;
            while i < s.len() {
                s[i].enc(o);
                i += 1;
            }
        }
    }
}

pub fn keq_seq<T: KEq>(a: &[T], b: &[T]) -> bool {
    if a.len() != b.len() {
        return false;
    }
    let mut i = 0;
    while i < a.len() {
        if !a[i].keq(&b[i]) {
            return false;
        }
        i += 1;
    }
    true
}

impl<T: RefEnc> RefEnc for Vec<T> {
    fn enc<const N: usize>(&self, o: &mut RefOut<N>) {
        enc_seq(self.as_slice(), o)
    }
    fn unit() -> Option<usize> {
        None
    }
}
impl<T: KEq> KEq for Vec<T> {
    fn keq(&self, o: &Self) -> bool {
        keq_seq(self, o)
    }
}
impl<T: RefEnc> RefEnc for Box<[T]> {
    fn enc<const N: usize>(&self, o: &mut RefOut<N>) {
        enc_seq(self, o)
    }
    fn unit() -> Option<usize> {
        None
    }
}
impl<T: KEq> KEq for Box<[T]> {
    fn keq(&self, o: &Self) -> bool {
        keq_seq(self, o)
    }
}
impl RefEnc for String {
    fn enc<const N: usize>(&self, o: &mut RefOut<N>) {
        enc_seq(self.as_bytes(), o)
    }
    fn unit() -> Option<usize> {
        None
    }
}
impl KEq for String {
    fn keq(&self, o: &Self) -> bool {
        keq_seq(self.as_bytes(), o.as_bytes())
    }
}
impl RefEnc for Box<str> {
    fn enc<const N: usize>(&self, o: &mut RefOut<N>) {
        enc_seq(self.as_bytes(), o)
    }
    fn unit() -> Option<usize> {
        None
    }
}
impl KEq for Box<str> {
    fn keq(&self, o: &Self) -> bool {
        keq_seq(self.as_bytes(), o.as_bytes())
    }
}

/// arrays: zero-copy elements -> one padded block (no length); deep -> items.
impl<T: RefEnc, const K: usize> RefEnc for [T; K] {
    fn enc<const N: usize>(&self, o: &mut RefOut<N>) {
        match T::unit() {
            Some(u) => {
                o.block(u, K * T::raw_size());
                let mut i = 0;
                while i < K {
                    self[i].raw(o);
                    i += 1;
                }
            }
            None => {
                let mut i = 0;
                while i < K {
                    self[i].enc(o);
                    i += 1;
                }
            }
        }
    }
    fn unit() -> Option<usize> {
        T::unit()
    }
    fn raw<const N: usize>(&self, o: &mut RefOut<N>) {
        let mut i = 0;
        while i < K {
            self[i].raw(o);
            i += 1;
        }
    }
    fn raw_size() -> usize {
        K * T::raw_size()
    }
}
impl<T: KEq, const K: usize> KEq for [T; K] {
    fn keq(&self, o: &Self) -> bool {
        keq_seq(self, o)
    }
}

/// homogeneous tuples of zero-copy elements: one padded block, the elements
/// in order (same-typed fields leave no room for layout padding).
macro_rules! tuple_enc {
    ($($idx:tt),+ ; $n:expr ; $($t:ident),+) => {
        impl<T: RefEnc> RefEnc for ($($t,)+) {
            fn enc<const N: usize>(&self, o: &mut RefOut<N>) {
                let u = T::unit().expect("homogeneous tuples hold zero-copy elements");
                o.block(u, $n * T::raw_size());
                $( self.$idx.raw(o); )+
            }
            fn unit() -> Option<usize> { T::unit() }
            fn raw<const N: usize>(&self, o: &mut RefOut<N>) { $( self.$idx.raw(o); )+ }
            fn raw_size() -> usize { $n * T::raw_size() }
        }
        impl<T: KEq> KEq for ($($t,)+) {
            fn keq(&self, o: &Self) -> bool { true $( && self.$idx.keq(&o.$idx) )+ }
        }
    };
}
tuple_enc!(0; 1; T);
tuple_enc!(0,1; 2; T,T);
tuple_enc!(0,1,2; 3; T,T,T);
tuple_enc!(0,1,2,3; 4; T,T,T,T);
tuple_enc!(0,1,2,3,4,5,6,7,8,9,10,11; 12; T,T,T,T,T,T,T,T,T,T,T,T);

// ---- header -----------------------------------------------------------------

pub const REF_MAGIC: [u8; 8] = *b"epserde ";

/// header of format 1.1: cookie, major=1, minor=1, pointer width, the two
/// digests, and the type name as a length-prefixed byte string.
pub fn enc_header<const N: usize>(o: &mut RefOut<N>, type_hash: u64, align_hash: u64, name: &str) {
    o.put_le(u64::from_le_bytes(REF_MAGIC) as u128, 8);
    o.put_le(1, 2);
    o.put_le(1, 2);
    o.put(8);
    o.put_le(type_hash as u128, 8);
    o.put_le(align_hash as u128, 8);
    enc_seq(name.as_bytes(), o);
    // the name is a byte block with unit 1; it is not a block of the value
    o.nblocks -= 1;
}
