//! C10: every corruption of the checked header fields yields the specific error.
//! C06 (header part): the header bytes are those of format 1.1.
//!
//! All 29 fixed header bytes are symbolic at once (a superset of single-bit
//! flips). `String::from_utf8` is stubbed (trusted std validator): the type
//! name is read before the hashes are compared.

use crate::lemmas::*;
use crate::refenc::*;
use crate::sinks::*;
use crate::types::*;
use core::hash::Hasher;
use epserde::deser::{self, Deserialize, DeserializeInner};
use epserde::ser::Serialize;
use epserde::traits::{AlignHash, TypeHash};

const MAGIC_LE: u64 = u64::from_le_bytes(*b"epserde ");
const MAGIC_REV_LE: u64 = u64::from_be_bytes(*b"epserde ");

fn le64(b: &[u8]) -> u64 {
    u64::from_le_bytes([b[0], b[1], b[2], b[3], b[4], b[5], b[6], b[7]])
}
fn le16(b: &[u8]) -> u16 {
    u16::from_le_bytes([b[0], b[1]])
}

#[derive(PartialEq, Eq, Clone, Copy)]
pub enum Expect {
    Endianness,
    Magic(u64),
    Major(u16),
    Minor(u16),
    Width(usize),
    TypeHash(u64, u64),
    AlignHash(u64, u64),
    Value,
}

/// the decision table of the property statement, first matching row wins
pub fn table(h: &[u8], th: u64, ah: u64) -> Expect {
    let cookie = le64(&h[0..8]);
    if cookie != MAGIC_LE {
        if cookie == MAGIC_REV_LE {
            return Expect::Endianness;
        }
        return Expect::Magic(cookie);
    }
    let major = le16(&h[8..10]);
    if major != 1 {
        return Expect::Major(major);
    }
    let minor = le16(&h[10..12]);
    if minor > 1 {
        return Expect::Minor(minor);
    }
    if h[12] != 8 {
        return Expect::Width(h[12] as usize);
    }
    if le64(&h[13..21]) != th {
        return Expect::TypeHash(le64(&h[13..21]), th);
    }
    if le64(&h[21..29]) != ah {
        return Expect::AlignHash(le64(&h[21..29]), ah);
    }
    Expect::Value
}

pub fn classify<T>(r: &deser::Result<T>) -> Option<Expect> {
    match r {
        Ok(_) => Some(Expect::Value),
        Err(deser::Error::EndiannessError) => Some(Expect::Endianness),
        Err(deser::Error::MagicCookieError(c)) => Some(Expect::Magic(*c)),
        Err(deser::Error::MajorVersionMismatch(m)) => Some(Expect::Major(*m)),
        Err(deser::Error::MinorVersionMismatch(m)) => Some(Expect::Minor(*m)),
        Err(deser::Error::UsizeSizeMismatch(w)) => Some(Expect::Width(*w)),
        Err(deser::Error::WrongTypeHash {
            ser_type_hash,
            self_type_hash,
            ..
        }) => Some(Expect::TypeHash(*ser_type_hash, *self_type_hash)),
        Err(deser::Error::WrongAlignHash {
            ser_align_hash,
            self_align_hash,
            ..
        }) => Some(Expect::AlignHash(*ser_align_hash, *self_align_hash)),
        Err(_) => None,
    }
}

macro_rules! hdr_table {
    ($name:ident, $t:ty, $bound:expr, $cap:expr, $unw:expr) => {
        #[kani::proof]
        #[kani::unwind($unw)]
        #[kani::stub(std::string::String::from_utf8, crate::lemmas::stub_from_utf8)]
        pub fn $name() {
            let v = <$t as Sym>::sym($bound);
            let mut sink = ArrSink::<$cap>::new();
            let r = v.serialize(&mut sink);
            assert!(r.is_ok(), "[C01/ser.ok] serialization into an infallible sink succeeds");
            let n = sink.len;
            let th = le64(&sink.buf[13..21]);
            let ah = le64(&sink.buf[21..29]);
            // corrupt: all 29 fixed header bytes symbolic
            let h: [u8; 29] = kani::any();
            sink.buf[..29].copy_from_slice(&h);
            let want = table(&h, th, ah);

            let mut src: &[u8] = &sink.buf[..n];
            let rf = <$t>::deserialize_full(&mut src);
            let got = classify(&rf);
            assert!(got == Some(want), "[C10/table.full] full-copy returns the first matching row of the header decision table");
            if let Ok(d) = &rf {
                assert!(d.keq(&v), "[C10/value.full] an intact header (minor 0 or 1) yields the original value (full copy)");
            }
            core::mem::forget(rf);

            let re = <$t>::deserialize_eps(&sink.buf[..n]);
            let gote = classify(&re);
            assert!(gote == Some(want), "[C10/table.eps] eps-copy returns the first matching row of the header decision table");
            if let Ok(d) = &re {
                assert!(<$t as EpsCmp>::eps_eq(d, &v), "[C10/value.eps] an intact header (minor 0 or 1) yields the original value (eps copy)");
            }
            core::mem::forget(re);
            kani::cover!(want == Expect::Value, "[cover] intact header reached");
            kani::cover!(matches!(want, Expect::AlignHash(_, _)), "[cover] align-hash row reached");
        }
    };
}

// @h hdr_table_u8 props=C10 tier=quick kind=complete vars="all 2^232 values of the 29 fixed header bytes x v:u8, both modes" fns="deser/mod.rs:check_header,deser/mod.rs:deserialize_full,deser/mod.rs:deserialize_eps"
hdr_table!(hdr_table_u8, u8, 0, 96, 9);
// @h hdr_table_opt_u32 props=C10 tier=thorough kind=complete vars="all 2^232 header values x v:Option<u32>, both modes" fns="deser/mod.rs:check_header"
hdr_table!(hdr_table_opt_u32, Option<u32>, 0, 128, 9);
// @h hdr_table_z8 props=C10,C05 tier=thorough kind=complete vars="all 2^232 header values x v:Z8, both modes" fns="deser/mod.rs:check_header,derive:Z8"
hdr_table!(hdr_table_z8, Z8, 0, 128, 9);

/// C06: the header is cookie, 1, 1, 8, the two digests computed independently
/// from the published recipe, and the length-prefixed type name.
macro_rules! hdr_bytes {
    ($name:ident, $t:ty, $bound:expr, $cap:expr, $unw:expr) => {
        #[kani::proof]
        #[kani::unwind($unw)]
        pub fn $name() {
            let v = <$t as Sym>::sym($bound);
            let mut sink = ArrSink::<$cap>::new();
            let r = v.serialize(&mut sink);
            assert!(r.is_ok(), "[C01/ser.ok] serialization into an infallible sink succeeds");
            if let Ok(cnt) = r {
                assert!(cnt == sink.len, "[C07/ser.count.header] serialize returns the number of bytes handed to the writer");
            }
            assert!(sink.flushes == 1, "[C06/flush] the stream is flushed once at the end");
            let mut th = xxhash_rust::xxh3::Xxh3::new();
            <$t as TypeHash>::type_hash(&mut th);
            let mut ahh = xxhash_rust::xxh3::Xxh3::new();
            let mut off = 0usize;
            <$t as AlignHash>::align_hash(&mut ahh, &mut off);
            let mut o = RefOut::<$cap>::new();
            enc_header(&mut o, th.finish(), ahh.finish(), core::any::type_name::<$t>());
            v.enc(&mut o);
            let same = same_bytes(sink.bytes(), o.bytes());
            assert!(same, "[C06/header.bytes] header and payload bytes equal the reference encoding of format 1.1");
            kani::cover!(true, "[cover] end of harness reached");
        }
    };
}
// @h hdr_bytes_opt_u32 props=C06,C07 tier=quick kind=complete vars="v:Option<u32>" fns="ser/mod.rs:write_header,ser/mod.rs:serialize_on_field_write,ser/mod.rs:serialize"
hdr_bytes!(hdr_bytes_opt_u32, Option<u32>, 0, 128, 40);
// @h hdr_bytes_vec_u16 props=C06,C07 tier=thorough kind=bounded bound="len<=2" vars="v:Vec<u16>" fns="ser/mod.rs:write_header"
hdr_bytes!(hdr_bytes_vec_u16, Vec<u16>, 2, 128, 40);

/// the header written for `&[T]` is the header of `Vec<T>` (SerType): name and hashes
// @h hdr_bytes_slice_u16 props=C06,C16 tier=quick kind=bounded bound="len<=1" vars="v:&[u16] over a symbolic Vec<u16>" fns="ser/mod.rs:serialize_on_field_write (SerType),ser/mod.rs:write_header"
#[kani::proof]
#[kani::unwind(40)]
pub fn hdr_bytes_slice_u16() {
    let owner = <Vec<u16>>::sym(1);
    let s: &[u16] = owner.as_slice();
    let mut sink = ArrSink::<128>::new();
    let r = s.serialize(&mut sink);
    assert!(r.is_ok(), "[C01/ser.ok] serialization into an infallible sink succeeds");
    let mut th = xxhash_rust::xxh3::Xxh3::new();
    <Vec<u16> as TypeHash>::type_hash(&mut th);
    let mut ahh = xxhash_rust::xxh3::Xxh3::new();
    let mut off = 0usize;
    <Vec<u16> as AlignHash>::align_hash(&mut ahh, &mut off);
    let mut o = RefOut::<128>::new();
    enc_header(&mut o, th.finish(), ahh.finish(), core::any::type_name::<Vec<u16>>());
    owner.enc(&mut o);
    let same = same_bytes(sink.bytes(), o.bytes());
    assert!(same, "[C06/header.sertype] a slice reference is written with the header (name, hashes) of the vector type it deserializes as");
    assert!(same, "[C16/slice.header] a slice reference is written with the header of the corresponding vector");
    core::mem::forget(r);
}

/// a type whose `type_name` is longer than 256 bytes: the name is written in full
/// (added after seed C06-R9: the name cut to a fixed maximum by the writer only - the
/// reader never compares it, so round trips survive)
pub type LongName = G2<G2<G2<u8, u8>, G2<u8, u8>>, G2<G2<u8, u8>, G2<u8, u8>>>;
// @h hdr_long_name props=C06 tier=quick kind=complete vars="v:G2<G2<G2<u8,u8>,G2<u8,u8>>,G2<G2<u8,u8>,G2<u8,u8>>> (type name of 261 bytes), all field values" fns="ser/mod.rs:write_header"
#[kani::proof]
#[kani::unwind(40)]
pub fn hdr_long_name() {
    let v = <LongName as Sym>::sym(0);
    let mut sink = ArrSink::<512>::new();
    let r = v.serialize(&mut sink);
    assert!(r.is_ok(), "[C01/ser.ok] serialization into an infallible sink succeeds");
    let name = core::any::type_name::<LongName>();
    assert!(name.len() > 256, "[harness] the sample type has a long name");
    let n = le64(&sink.buf[29..37]) as usize;
    assert!(n == name.len(), "[C06/header.name.len] the type name is written in full, length-prefixed");
    let i = sym_index(name.len());
    assert!(sink.buf[37 + i] == name.as_bytes()[i], "[C06/header.name.bytes] the bytes of the type name follow its length");
    assert!(sink.len == 37 + name.len() + 15, "[C06/header.then.payload] the payload follows the name");
    core::mem::forget(r);
    kani::cover!(true, "[cover] end of harness reached");
}
