//! C04: the near-miss universe. Every module defines types with the *same
//! identifiers* as `base`, mutated in exactly one aspect of the serialized
//! structure. The program quantifier of C04 is enumerated here, not covered.

use epserde::prelude::*;

pub mod base {
    use epserde::prelude::*;
    #[derive(Epserde, Debug, Clone, PartialEq, Eq)]
    pub struct P {
        pub a: u32,
        pub b: u16,
    }
    #[derive(Epserde, Debug, Clone, Copy, PartialEq, Eq)]
    #[repr(C)]
    #[zero_copy]
    pub struct Z {
        pub a: u32,
        pub b: u16,
    }
    #[derive(Epserde, Debug, Clone, PartialEq, Eq)]
    pub enum E {
        A,
        B(u8),
        C { x: u16 },
    }
    #[derive(Epserde, Debug, Clone, Copy, PartialEq, Eq)]
    #[repr(C)]
    #[zero_copy]
    pub struct Q<const N: usize>;
    #[derive(Epserde, Debug, Clone, PartialEq, Eq)]
    pub struct G<T> {
        pub v: T,
    }
}
/// one field renamed
pub mod renamed {
    use epserde::prelude::*;
    #[derive(Epserde, Debug, Clone, PartialEq, Eq)]
    pub struct P {
        pub x: u32,
        pub b: u16,
    }
    #[derive(Epserde, Debug, Clone, Copy, PartialEq, Eq)]
    #[repr(C)]
    #[zero_copy]
    pub struct Z {
        pub x: u32,
        pub b: u16,
    }
    /// variant renamed
    #[derive(Epserde, Debug, Clone, PartialEq, Eq)]
    pub enum E {
        A,
        D(u8),
        C { x: u16 },
    }
    /// const parameter renamed
    #[derive(Epserde, Debug, Clone, Copy, PartialEq, Eq)]
    #[repr(C)]
    #[zero_copy]
    pub struct Q<const M: usize>;
}
/// two fields swapped
pub mod swapped {
    use epserde::prelude::*;
    #[derive(Epserde, Debug, Clone, PartialEq, Eq)]
    pub struct P {
        pub b: u16,
        pub a: u32,
    }
    #[derive(Epserde, Debug, Clone, Copy, PartialEq, Eq)]
    #[repr(C)]
    #[zero_copy]
    pub struct Z {
        pub b: u16,
        pub a: u32,
    }
    /// variants reordered
    #[derive(Epserde, Debug, Clone, PartialEq, Eq)]
    pub enum E {
        B(u8),
        A,
        C { x: u16 },
    }
}
/// one field type replaced by a same-size type
pub mod retyped {
    use epserde::prelude::*;
    #[derive(Epserde, Debug, Clone, PartialEq, Eq)]
    pub struct P {
        pub a: i32,
        pub b: u16,
    }
    #[derive(Epserde, Debug, Clone, Copy, PartialEq)]
    #[repr(C)]
    #[zero_copy]
    pub struct Z {
        pub a: f32,
        pub b: u16,
    }
    #[derive(Epserde, Debug, Clone, PartialEq, Eq)]
    pub enum E {
        A,
        B(i8),
        C { x: u16 },
    }
}
/// copy kind toggled
pub mod toggled {
    use epserde::prelude::*;
    #[derive(Epserde, Debug, Clone, Copy, PartialEq, Eq)]
    #[repr(C)]
    #[zero_copy]
    pub struct P {
        pub a: u32,
        pub b: u16,
    }
    #[derive(Epserde, Debug, Clone, Copy, PartialEq, Eq)]
    #[deep_copy]
    pub struct Z {
        pub a: u32,
        pub b: u16,
    }
}
/// representation attribute changed (layout-only difference)
pub mod repr {
    use epserde::prelude::*;
    #[derive(Epserde, Debug, Clone, Copy, PartialEq, Eq)]
    #[repr(C)]
    #[repr(align(16))]
    #[zero_copy]
    pub struct Z {
        pub a: u32,
        pub b: u16,
    }
}
/// same fields and size, different argument of repr(align(N))
pub mod align8 {
    use epserde::prelude::*;
    #[derive(Epserde, Debug, Clone, Copy, PartialEq, Eq)]
    #[repr(C)]
    #[repr(align(8))]
    #[zero_copy]
    pub struct W {
        pub lo: u64,
        pub hi: u64,
    }
}
pub mod align16 {
    use epserde::prelude::*;
    #[derive(Epserde, Debug, Clone, Copy, PartialEq, Eq)]
    #[repr(C)]
    #[repr(align(16))]
    #[zero_copy]
    pub struct W {
        pub lo: u64,
        pub hi: u64,
    }
}
/// type name changed
pub mod named {
    use epserde::prelude::*;
    #[derive(Epserde, Debug, Clone, PartialEq, Eq)]
    pub struct R {
        pub a: u32,
        pub b: u16,
    }
}
