//! The enumerated family of user-defined types ("programs") used by the
//! harnesses. C05 quantifies over all programs; this technique can only
//! enumerate, and every evidence file says so.
//!
//! Each definition comes with its reference encoding (RefEnc), written from
//! the format description: deep structs = fields in declaration order; derived
//! enums = pointer-width variant index then the fields; zero-copy structs =
//! one padded block holding the repr(C) image.

use crate::refenc::*;
use core::marker::PhantomData;
use epserde::prelude::*;

// ---------------------------------------------------------------- zero-copy

/// repr(C), no internal padding: size 8, align 4, unit 4.
#[derive(Epserde, Debug, Clone, Copy, PartialEq, Eq)]
#[repr(C)]
#[zero_copy]
pub struct Z8 {
    pub a: u32,
    pub b: u16,
    pub c: u16,
}
impl RefEnc for Z8 {
    fn enc<const N: usize>(&self, o: &mut RefOut<N>) {
        o.block(4, 8);
        self.raw(o)
    }
    fn unit() -> Option<usize> {
        Some(4)
    }
    fn raw<const N: usize>(&self, o: &mut RefOut<N>) {
        o.put_le(self.a as u128, 4);
        o.put_le(self.b as u128, 2);
        o.put_le(self.c as u128, 2);
    }
    fn raw_size() -> usize {
        8
    }
}
impl KEq for Z8 {
    fn keq(&self, o: &Self) -> bool {
        self.a == o.a && self.b == o.b && self.c == o.c
    }
}

/// repr(C) with a 16-byte field: size 32, align 16, unit 16.
#[derive(Epserde, Debug, Clone, Copy, PartialEq, Eq)]
#[repr(C)]
#[zero_copy]
pub struct Z32 {
    pub a: u128,
    pub b: u64,
    pub c: u64,
}
impl RefEnc for Z32 {
    fn enc<const N: usize>(&self, o: &mut RefOut<N>) {
        o.block(16, 32);
        self.raw(o)
    }
    fn unit() -> Option<usize> {
        Some(16)
    }
    fn raw<const N: usize>(&self, o: &mut RefOut<N>) {
        o.put_le(self.a, 16);
        o.put_le(self.b as u128, 8);
        o.put_le(self.c as u128, 8);
    }
    fn raw_size() -> usize {
        32
    }
}
impl KEq for Z32 {
    fn keq(&self, o: &Self) -> bool {
        self.a == o.a && self.b == o.b && self.c == o.c
    }
}

/// zero-copy tuple struct nesting another zero-copy struct: size 12, unit 4.
#[derive(Epserde, Debug, Clone, Copy, PartialEq, Eq)]
#[repr(C)]
#[zero_copy]
pub struct ZT(pub Z8, pub [u16; 2]);
impl RefEnc for ZT {
    fn enc<const N: usize>(&self, o: &mut RefOut<N>) {
        o.block(4, 12);
        self.raw(o)
    }
    fn unit() -> Option<usize> {
        Some(4)
    }
    fn raw<const N: usize>(&self, o: &mut RefOut<N>) {
        self.0.raw(o);
        o.put_le(self.1[0] as u128, 2);
        o.put_le(self.1[1] as u128, 2);
    }
    fn raw_size() -> usize {
        12
    }
}
impl KEq for ZT {
    fn keq(&self, o: &Self) -> bool {
        self.0.keq(&o.0) && self.1[0] == o.1[0] && self.1[1] == o.1[1]
    }
}

/// zero-sized zero-copy unit struct with a const parameter.
#[derive(Epserde, Debug, Clone, Copy, PartialEq, Eq)]
#[repr(C)]
#[zero_copy]
pub struct ZU<const K: usize>;
impl<const K: usize> RefEnc for ZU<K> {
    fn enc<const N: usize>(&self, o: &mut RefOut<N>) {
        o.block(1, 0);
    }
    fn unit() -> Option<usize> {
        Some(1)
    }
    fn raw<const N: usize>(&self, _o: &mut RefOut<N>) {}
    fn raw_size() -> usize {
        0
    }
}
impl<const K: usize> KEq for ZU<K> {
    fn keq(&self, _o: &Self) -> bool {
        true
    }
}

// ---------------------------------------------------------------- deep-copy

/// deep struct mixing a primitive, a zero-copy vector and an option.
#[derive(Epserde, Debug, Clone, PartialEq, Eq)]
pub struct D1 {
    pub a: u8,
    pub b: Vec<u16>,
    pub c: Option<u32>,
}
impl RefEnc for D1 {
    fn enc<const N: usize>(&self, o: &mut RefOut<N>) {
        self.a.enc(o);
        self.b.enc(o);
        self.c.enc(o);
    }
    fn unit() -> Option<usize> {
        None
    }
}
impl KEq for D1 {
    fn keq(&self, o: &Self) -> bool {
        self.a == o.a && self.b.keq(&o.b) && self.c.keq(&o.c)
    }
}

/// deep struct with fixed-size fields only (loop-free round trip).
#[derive(Epserde, Debug, Clone, PartialEq, Eq)]
pub struct D2 {
    pub x: u16,
    pub z: Z8,
    pub y: Option<u8>,
    pub t: (u32, u32),
}
impl RefEnc for D2 {
    fn enc<const N: usize>(&self, o: &mut RefOut<N>) {
        self.x.enc(o);
        self.z.enc(o);
        self.y.enc(o);
        self.t.enc(o);
    }
    fn unit() -> Option<usize> {
        None
    }
}
impl KEq for D2 {
    fn keq(&self, o: &Self) -> bool {
        self.x == o.x && self.z.keq(&o.z) && self.y.keq(&o.y) && self.t.keq(&o.t)
    }
}

/// deep tuple struct.
#[derive(Epserde, Debug, Clone, PartialEq, Eq)]
pub struct DT(pub u32, pub Option<u16>);
impl RefEnc for DT {
    fn enc<const N: usize>(&self, o: &mut RefOut<N>) {
        self.0.enc(o);
        self.1.enc(o);
    }
    fn unit() -> Option<usize> {
        None
    }
}
impl KEq for DT {
    fn keq(&self, o: &Self) -> bool {
        self.0 == o.0 && self.1.keq(&o.1)
    }
}

/// deep enum: unit, tuple and struct variants.
#[derive(Epserde, Debug, Clone, PartialEq, Eq)]
pub enum E1 {
    A,
    B(u16),
    C { x: u8, y: u32 },
    D,
}
impl RefEnc for E1 {
    fn enc<const N: usize>(&self, o: &mut RefOut<N>) {
        match self {
            E1::A => o.put_le(0, 8),
            E1::B(v) => {
                o.put_le(1, 8);
                v.enc(o)
            }
            E1::C { x, y } => {
                o.put_le(2, 8);
                x.enc(o);
                y.enc(o)
            }
            E1::D => o.put_le(3, 8),
        }
    }
    fn unit() -> Option<usize> {
        None
    }
}
impl KEq for E1 {
    fn keq(&self, o: &Self) -> bool {
        self == o
    }
}

/// generic deep struct: `a: T` and `b: U` are parameter-typed fields (their
/// ε-copy type is substituted); `c: Vec<U>` merely mentions a parameter and
/// stays fully deserialized... but only when `U` is not also a field type, so
/// here we keep the two roles on separate parameters.
#[derive(Epserde, Debug, Clone, PartialEq, Eq)]
pub struct G2<T, U> {
    pub a: T,
    pub b: U,
    pub c: u8,
}
impl<T: RefEnc, U: RefEnc> RefEnc for G2<T, U> {
    fn enc<const N: usize>(&self, o: &mut RefOut<N>) {
        self.a.enc(o);
        self.b.enc(o);
        self.c.enc(o);
    }
    fn unit() -> Option<usize> {
        None
    }
}
impl<T: KEq, U: KEq> KEq for G2<T, U> {
    fn keq(&self, o: &Self) -> bool {
        self.a.keq(&o.a) && self.b.keq(&o.b) && self.c == o.c
    }
}

/// generic struct whose parameter is only *mentioned* (`Vec<T>`): the field is
/// fully deserialized in ε-copy mode and keeps its type.
#[derive(Epserde, Debug, Clone, PartialEq, Eq)]
pub struct GM<T> {
    pub v: Vec<T>,
    pub n: u16,
}
impl<T: RefEnc> RefEnc for GM<T> {
    fn enc<const N: usize>(&self, o: &mut RefOut<N>) {
        self.v.enc(o);
        self.n.enc(o);
    }
    fn unit() -> Option<usize> {
        None
    }
}
impl<T: KEq> KEq for GM<T> {
    fn keq(&self, o: &Self) -> bool {
        self.v.keq(&o.v) && self.n == o.n
    }
}

/// phantom parameter, const parameter with default, where-clause.
#[derive(Epserde, Debug, Clone, PartialEq, Eq)]
pub struct GP<P, const Q: usize = 2>
where
    P: Clone,
{
    pub arr: [u16; Q],
    pub m: PhantomData<P>,
}
impl<P: Clone, const Q: usize> RefEnc for GP<P, Q> {
    fn enc<const N: usize>(&self, o: &mut RefOut<N>) {
        self.arr.enc(o);
    }
    fn unit() -> Option<usize> {
        None
    }
}
impl<P: Clone, const Q: usize> KEq for GP<P, Q> {
    fn keq(&self, o: &Self) -> bool {
        keq_seq(&self.arr[..], &o.arr[..])
    }
}

/// generic enum with a parameter-typed field in a struct variant.
#[derive(Epserde, Debug, Clone, PartialEq, Eq)]
pub enum GE<V> {
    N,
    S { a: i32, b: V },
    T(V, u8),
}
impl<V: RefEnc> RefEnc for GE<V> {
    fn enc<const N: usize>(&self, o: &mut RefOut<N>) {
        match self {
            GE::N => o.put_le(0, 8),
            GE::S { a, b } => {
                o.put_le(1, 8);
                a.enc(o);
                b.enc(o)
            }
            GE::T(v, k) => {
                o.put_le(2, 8);
                v.enc(o);
                k.enc(o)
            }
        }
    }
    fn unit() -> Option<usize> {
        None
    }
}
impl<V: KEq> KEq for GE<V> {
    fn keq(&self, o: &Self) -> bool {
        match (self, o) {
            (GE::N, GE::N) => true,
            (GE::S { a, b }, GE::S { a: a2, b: b2 }) => a == a2 && b.keq(b2),
            (GE::T(v, k), GE::T(v2, k2)) => v.keq(v2) && k == k2,
            _ => false,
        }
    }
}

/// repr(C) zero-copy enum whose fields are all narrower than its (C int) tag:
/// native alignment 4, every field unit <= 2.
#[derive(Epserde, Debug, Clone, Copy, PartialEq, Eq)]
#[repr(C)]
#[zero_copy]
pub enum ZE {
    A,
    B(u8),
    C { x: u16, y: bool },
}

/// definitions produced by `macro_rules!`: the field type reaches the derive
/// through a `$t:ty` fragment (an invisible group around the parameter)
macro_rules! gen_named {
    ($name:ident, $p:ident, $fty:ty) => {
        #[derive(Epserde, Debug, Clone, PartialEq, Eq)]
        pub struct $name<$p> {
            pub a: $fty,
            pub n: u8,
        }
    };
}
gen_named!(GMac, T, T);
macro_rules! gen_enum {
    ($name:ident, $p:ident, $fty:ty) => {
        #[derive(Epserde, Debug, Clone, PartialEq, Eq)]
        pub enum $name<$p> {
            None,
            One($fty),
        }
    };
}
gen_enum!(GMacE, T, T);

/// zero-copy struct with native alignment 1 and alignment unit 8
/// (`repr(packed)`): the unit comes from the widest field, not from align_of
#[derive(Epserde, Debug, Clone, Copy, PartialEq, Eq)]
#[repr(C)]
#[repr(packed)]
#[zero_copy]
pub struct ZP {
    pub tag: u8,
    pub value: u64,
}
impl RefEnc for ZP {
    fn enc<const N: usize>(&self, o: &mut RefOut<N>) {
        o.block(8, 9);
        self.raw(o)
    }
    fn unit() -> Option<usize> {
        Some(8)
    }
    fn raw<const N: usize>(&self, o: &mut RefOut<N>) {
        o.put(self.tag);
        let v = self.value;
        o.put_le(v as u128, 8);
    }
    fn raw_size() -> usize {
        9
    }
}
impl KEq for ZP {
    fn keq(&self, o: &Self) -> bool {
        let (a, b) = (self.value, o.value);
        self.tag == o.tag && a == b
    }
}

/// deep-copy enum with explicit discriminants that differ from the declaration
/// indices: the tag on disk is the declaration index
#[derive(Epserde, Debug, Clone, Copy, PartialEq, Eq)]
pub enum ED {
    Low = 1,
    Mid = 2,
    High = 5,
}
impl RefEnc for ED {
    fn enc<const N: usize>(&self, o: &mut RefOut<N>) {
        match self {
            ED::Low => o.put_le(0, 8),
            ED::Mid => o.put_le(1, 8),
            ED::High => o.put_le(2, 8),
        }
    }
    fn unit() -> Option<usize> {
        None
    }
}
impl KEq for ED {
    fn keq(&self, o: &Self) -> bool {
        self == o
    }
}

/// zero-sized zero-copy struct with two const parameters (hash recipe: all
/// const values, then all const names)
#[derive(Epserde, Debug, Clone, Copy, PartialEq, Eq)]
#[repr(C)]
#[zero_copy]
pub struct ZC2<const A: usize, const B: usize>;

/// generic enum whose parameter is the type of a field of a tuple variant only
#[derive(Epserde, Debug, Clone, PartialEq, Eq)]
pub enum GT<V> {
    N,
    H { id: u32 },
    T(u8, V),
}
/// generic enum whose parameter is the type of a field of a struct variant only
#[derive(Epserde, Debug, Clone, PartialEq, Eq)]
pub enum GS<V> {
    N,
    T(u8, u16),
    S { a: u8, b: V },
}
/// tuple struct with a parameter-typed field and a second parameter that is
/// merely mentioned. (A parameter that is the type of one field *and* mentioned
/// in the type of another is outside the grammar: the eps-copy type
/// `S<DeserType<V>>` has no field of type `Vec<V>`.)
#[derive(Epserde, Debug, Clone, PartialEq, Eq)]
pub struct GTS<V, W>(pub V, pub Vec<W>, pub u8);

/// deep-copy definitions with a *bounded* type parameter that is the type of a
/// field: the bound has to be carried over to the (de)serialization types
#[derive(Epserde, Debug, Clone, PartialEq, Eq)]
pub struct GBS<V: Clone> {
    pub a: u8,
    pub b: V,
}
#[derive(Epserde, Debug, Clone, PartialEq, Eq)]
pub enum GB<V: Clone> {
    N,
    S { a: u8, b: V },
    T(V),
}

/// deep-copy struct holding one zero-copy block (its field is not a type
/// parameter, so it is fully copied in eps mode)
#[derive(Epserde, Debug, Clone, PartialEq, Eq)]
#[deep_copy]
pub struct DB {
    pub blk: [u16; 2],
}
impl RefEnc for DB {
    fn enc<const N: usize>(&self, o: &mut RefOut<N>) {
        self.blk.enc(o)
    }
    fn unit() -> Option<usize> {
        None
    }
}
impl KEq for DB {
    fn keq(&self, o: &Self) -> bool {
        self.blk == o.blk
    }
}
