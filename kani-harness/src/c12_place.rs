//! C12: misplaced buffers are refused with an alignment error, never misread.
//!
//! The stream is copied to a symbolic offset `k` inside a 128-byte aligned
//! buffer; only the residue of the base address matters, and every object base
//! is maximally aligned in CBMC, so `k` *is* the residue.

use crate::lemmas::*;
use crate::refenc::*;
use crate::sinks::*;
use crate::types::*;
use epserde::deser::{self, DeserializeInner, SliceWithPos};

#[repr(C, align(128))]
pub struct Placed<const N: usize>(pub [u8; N]);

macro_rules! place {
    ($name:ident, $t:ty, $bound:expr, $cap:expr, $unw:expr, $kmax:expr, $mis:ident) => {
        #[kani::proof]
        #[kani::unwind($unw)]
        pub fn $name() {
            let v = <$t as Sym>::sym($bound);
            let mut sink = ArrSink::<$cap>::new();
            let (r, _) = ser_at(&v, 0, &mut sink);
            assert!(r.is_ok(), "[C01/ser.ok] serialization into an infallible sink succeeds");
            let n = sink.len;
            let o: RefOut<$cap> = ref_at(&v, 0);
            let k: usize = kani::any();
            kani::assume(k < $kmax);
            let mut buf = Placed::<{ $cap + $kmax }>([0u8; $cap + $kmax]);
            buf.0[k..k + n].copy_from_slice(&sink.buf[..n]);
            let base = buf.0.as_ptr() as usize;
            // every block of the reference encoding lands on a multiple of its unit?
            let mut all_aligned = true;
            let mut i = 0;
            while i < MAX_BLOCKS {
                if i < o.nblocks && (base + k + o.blocks[i].off) % o.blocks[i].unit != 0 {
                    all_aligned = false;
                }
                i += 1;
            }
            let mut s = SliceWithPos { data: &buf.0[k..k + n], pos: 0 };
            match <$t>::_deserialize_eps_inner(&mut s) {
                Ok(d) => {
                    assert!(all_aligned, "[C12/refuse] eps-copy succeeds only when every block lands on a multiple of its unit");
                    assert!(<$t as EpsCmp>::eps_eq(&d, &v), "[C12/value] a well placed stream yields the original value");
                    let mut bs = Borrows::new();
                    <$t as EpsCmp>::borrows(&d, &mut bs);
                    let j = sym_index(MAX_BORROWS);
                    if j < bs.n && bs.b[j].addr != COPIED {
                        assert!(bs.b[j].addr % bs.b[j].align == 0, "[C12/ref.aligned] no returned reference is misaligned for its type");
                        assert!(bs.b[j].addr % bs.b[j].align == 0, "[C03/borrow.aligned.placed] a borrowed part is aligned for its element type wherever the buffer is placed");
                        assert!(bs.b[j].bytes == 0 || (bs.b[j].addr >= base + k && bs.b[j].addr + bs.b[j].bytes <= base + k + n), "[C03/borrow.inside.placed] a borrowed part covers only bytes of the buffer wherever it is placed");
                    }
                }
                Err(deser::Error::AlignmentError) => {
                    assert!(!all_aligned, "[C12/accept] a stream whose blocks are all well placed is accepted");
                }
                Err(e) => { core::mem::forget(e); assert!(false, "[C12/kind] a misplaced stream is refused with an alignment error") }
            };
            kani::cover!(all_aligned && k > 0, "[cover] well placed at a non-zero offset reached");
            $crate::c12_place::cover_mis!($mis, all_aligned);
        }
    };
}
macro_rules! cover_mis {
    (blocks, $a:expr) => {
        kani::cover!(!$a, "[cover] misplaced reached");
    };
    (bytes, $a:expr) => {
        assert!($a, "[C12/bytes.any] streams containing only byte-aligned data are well placed at any address");
    };
}
pub(crate) use cover_mis;

// @h place_vec_u32 props=C12,C03 tier=quick kind=bounded bound="len<=2; residues 0..15" vars="v:Vec<u32>, base residue k<16" fns="deser/slice_with_pos.rs:align,deser/helpers.rs:deserialize_eps_slice_zero"
place!(place_vec_u32, Vec<u32>, 2, 32, 17, 16, blocks);
// @h place_z8 props=C12,C03,C05 tier=quick kind=complete vars="v:Z8, base residue k<16" fns="deser/slice_with_pos.rs:align,deser/helpers.rs:deserialize_eps_zero"
place!(place_z8, Z8, 0, 32, 17, 16, blocks);
// @h place_opt_vec_u16 props=C12,C03 tier=quick kind=bounded bound="len<=2; residues 0..15" vars="v:Option<Vec<u16>> (None has no block), base residue k<16" fns="deser/slice_with_pos.rs:align"
place!(place_opt_vec_u16, Option<Vec<u16>>, 2, 32, 17, 16, blocks);
// @h place_string props=C12,C03 tier=quick kind=bounded bound="len<=2 ASCII; residues 0..15" vars="v:String (byte-aligned data only), base residue k<16" fns="impls/string.rs"
place!(place_string, String, 2, 32, 17, 16, bytes);
// @h place_arr_u64 props=C12,C03 tier=quick kind=complete vars="v:[u64;2], base residue k<16" fns="impls/array.rs"
place!(place_arr_u64, [u64; 2], 0, 32, 17, 16, blocks);
// @h place_z32_128 props=C12,C03,C05 tier=thorough kind=complete vars="v:Z32 (unit 16), base residue k<128" fns="deser/slice_with_pos.rs:align"
place!(place_z32_128, Z32, 0, 64, 17, 128, blocks);
