//! C16: slices and exact-size iterators serialize exactly like the vector.

use crate::lemmas::*;
use crate::refenc::*;
use crate::sinks::*;
use crate::types::*;
use epserde::impls::iter::SerIter;
use epserde::ser::{self, Serialize, SerializeInner};

fn same_sinks<const N: usize>(a: &ArrSink<N>, b: &ArrSink<N>) -> bool {
    same_bytes(a.bytes(), b.bytes())
}

// @h same_as_vec_u16 props=C16 tier=quick kind=bounded bound="len<=2" vars="items:Vec<u16>; header included" fns="impls/slice.rs,impls/iter.rs:SerializeHelper<Zero>,impls/vec.rs"
#[kani::proof]
#[kani::unwind(9)]
pub fn same_as_vec_u16() {
    let v = <Vec<u16>>::sym(2);
    let mut a = ArrSink::<128>::new();
    let ra = v.serialize(&mut a);
    let mut b = ArrSink::<128>::new();
    let s: &[u16] = v.as_slice();
    let rb = s.serialize(&mut b);
    let mut c = ArrSink::<128>::new();
    let rc = SerIter::from(v.iter()).serialize(&mut c);
    assert!(ra.is_ok() && rb.is_ok() && rc.is_ok(), "[C16/ok] all three serializations succeed");
    assert!(same_sinks(&a, &b), "[C16/slice.bytes] a slice reference serializes byte-for-byte like the vector (header included)");
    assert!(same_sinks(&a, &c), "[C16/iter.bytes] an exact-size iterator serializes byte-for-byte like the vector (header included)");
    core::mem::forget((ra, rb, rc));
    kani::cover!(v.len() == 2, "[cover] two items reached");
    kani::cover!(v.len() == 0, "[cover] empty reached");
}

// @h same_as_vec_z8 props=C16,C05 tier=thorough kind=bounded bound="len<=2" vars="items:Vec<Z8>; header included" fns="impls/slice.rs,impls/iter.rs"
#[kani::proof]
#[kani::unwind(9)]
pub fn same_as_vec_z8() {
    let v = <Vec<Z8>>::sym(2);
    let mut a = ArrSink::<160>::new();
    let ra = v.serialize(&mut a);
    let mut b = ArrSink::<160>::new();
    let s: &[Z8] = v.as_slice();
    let rb = s.serialize(&mut b);
    let mut c = ArrSink::<160>::new();
    let rc = SerIter::from(v.iter()).serialize(&mut c);
    assert!(ra.is_ok() && rb.is_ok() && rc.is_ok(), "[C16/ok] all three serializations succeed");
    assert!(same_sinks(&a, &b), "[C16/slice.bytes] a slice reference serializes byte-for-byte like the vector (header included)");
    assert!(same_sinks(&a, &c), "[C16/iter.bytes] an exact-size iterator serializes byte-for-byte like the vector (header included)");
    core::mem::forget((ra, rb, rc));
}

/// elements whose native alignment (1) differs from their alignment unit (8):
/// the gap after the length word is governed by the unit, for all three
// @h same_as_vec_zp props=C16,C07 tier=quick kind=bounded bound="len<=1" vars="items:Vec<ZP> (repr(packed): align_of 1, unit 8) written at stream offset 1; payload level" fns="impls/slice.rs,impls/iter.rs:SerializeHelper<Zero>,ser/helpers.rs:serialize_slice_zero"
#[kani::proof]
#[kani::unwind(11)]
pub fn same_as_vec_zp() {
    let v = <Vec<ZP>>::sym(1);
    let mut a = ArrSink::<48>::new();
    let (ra, _) = ser_at(&v, 1, &mut a);
    let mut b = ArrSink::<48>::new();
    let s: &[ZP] = v.as_slice();
    let (rb, _) = ser_at(&s, 1, &mut b);
    let mut d = ArrSink::<48>::new();
    let (rd, _) = ser_at(&SerIter::from(v.iter()), 1, &mut d);
    assert!(ra.is_ok() && rb.is_ok() && rd.is_ok(), "[C16/ok] all three serializations succeed");
    assert!(same_sinks(&a, &b), "[C16/slice.bytes] a slice reference serializes byte-for-byte like the vector (packed elements)");
    assert!(same_sinks(&a, &d), "[C16/iter.bytes] an exact-size iterator serializes byte-for-byte like the vector (packed elements)");
    // and all of them are the reference encoding: 8 length bytes, 7 zero bytes, the images
    let o = ref_at::<_, 48>(&v, 1);
    assert!(same_bytes(&a.buf[1..a.len], o.bytes()), "[C07/bytes] the gap in front of a zero-copy block is governed by the alignment unit of the element");
    core::mem::forget((ra, rb, rd));
    kani::cover!(v.len() == 1, "[cover] one item reached");
    kani::cover!(v.len() == 0, "[cover] empty reached");
}

/// deep elements (slices only: SerIter requires zero-copy items)
// @h same_as_vec_deep props=C16 tier=quick kind=bounded bound="len<=2" vars="items:Vec<Option<u8>>; payload level" fns="impls/slice.rs,ser/helpers.rs:serialize_slice_deep"
#[kani::proof]
#[kani::unwind(5)]
pub fn same_as_vec_deep() {
    let v = <Vec<Option<u8>>>::sym(2);
    let mut a = ArrSink::<32>::new();
    let (ra, _) = ser_at(&v, 0, &mut a);
    let mut b = ArrSink::<32>::new();
    let s: &[Option<u8>] = v.as_slice();
    let (rb, _) = ser_at(&s, 0, &mut b);
    assert!(ra.is_ok() && rb.is_ok(), "[C16/ok] both serializations succeed");
    assert!(same_sinks(&a, &b), "[C16/slice.bytes.deep] a slice of deep elements serializes like the vector");
}

/// inside a generic structure, in a parameter-typed field
// @h same_as_vec_nested props=C16,C05 tier=quick kind=bounded bound="len<=2" vars="G2<&[u16],u8> / G2<SerIter,u8> vs G2<Vec<u16>,u8>; payload level" fns="derive:G2,impls/slice.rs,impls/iter.rs"
#[kani::proof]
#[kani::unwind(5)]
pub fn same_as_vec_nested() {
    let v = <Vec<u16>>::sym(2);
    let x: u8 = kani::any();
    let c: u8 = kani::any();
    let mut a = ArrSink::<32>::new();
    let (ra, _) = ser_at(&G2 { a: v.clone(), b: x, c }, 1, &mut a);
    let mut b = ArrSink::<32>::new();
    let (rb, _) = ser_at(&G2 { a: v.as_slice(), b: x, c }, 1, &mut b);
    let mut d = ArrSink::<32>::new();
    let (rd, _) = ser_at(&G2 { a: SerIter::from(v.iter()), b: x, c }, 1, &mut d);
    assert!(ra.is_ok() && rb.is_ok() && rd.is_ok(), "[C16/ok] all three serializations succeed");
    assert!(same_sinks(&a, &b), "[C16/slice.nested] a structure holding a slice serializes like the one holding the vector");
    assert!(same_sinks(&a, &d), "[C16/iter.nested] a structure holding an iterator wrapper serializes like the one holding the vector");
}

/// an iterator that announces `announced` items and yields `actual`
pub struct Lying<'a> {
    pub items: &'a [u16],
    pub next: usize,
    pub actual: usize,
    pub announced: usize,
}
impl<'a> Iterator for Lying<'a> {
    type Item = &'a u16;
    fn next(&mut self) -> Option<&'a u16> {
        if self.next < self.actual {
            self.next += 1;
            Some(&self.items[self.next - 1])
        } else {
            None
        }
    }
}
impl ExactSizeIterator for Lying<'_> {
    fn len(&self) -> usize {
        self.announced
    }
}

// @h lying_iter props=C16 tier=quick kind=complete vars="(announced, actual) in [0,3]^2, items symbolic" fns="impls/iter.rs:SerializeHelper<Zero>::_serialize_inner"
#[kani::proof]
#[kani::unwind(6)]
pub fn lying_iter() {
    let items: [u16; 3] = kani::any();
    let announced: usize = kani::any();
    let actual: usize = kani::any();
    kani::assume(announced <= 3 && actual <= 3);
    let it = Lying { items: &items, next: 0, actual, announced };
    let mut a = ArrSink::<48>::new();
    let (r, _) = ser_at(&SerIter::from(it), 0, &mut a);
    match r {
        Ok(()) => assert!(announced == actual, "[C16/lying.never_ok] a wrong announced length is never accepted"),
        Err(ser::Error::IteratorLengthMismatch { actual: a2, expected }) => {
            assert!(announced != actual, "[C16/lying.spurious] no mismatch error for a truthful iterator");
            assert!(a2 == actual && expected == announced, "[C16/lying.counts] the mismatch error reports both counts");
        }
        Err(_) => assert!(false, "[C16/lying.kind] a wrong announced length is reported as a length mismatch"),
    }
}

/// zero-sized elements: slice, iterator wrapper and vector agree (added after seed C16-R8:
/// a batching buffer sized `bytes / size_of::<T>()`)
// @h same_as_vec_unit props=C16 tier=quick kind=bounded bound="len<=3" vars="items:Vec<()> / PhantomData items; payload level, stream offset 3" fns="impls/slice.rs,impls/iter.rs:SerializeHelper<Zero>,ser/helpers.rs"
#[kani::proof]
#[kani::unwind(6)]
pub fn same_as_vec_unit() {
    let n: usize = kani::any();
    kani::assume(n <= 3);
    let all = [(); 3];
    let v: Vec<()> = all[..n].to_vec();
    let mut a = ArrSink::<32>::new();
    let (ra, _) = ser_at(&v, 3, &mut a);
    let mut b = ArrSink::<32>::new();
    let s: &[()] = v.as_slice();
    let (rb, _) = ser_at(&s, 3, &mut b);
    let mut d = ArrSink::<32>::new();
    let (rd, _) = ser_at(&SerIter::from(all[..n].iter()), 3, &mut d);
    assert!(ra.is_ok() && rb.is_ok() && rd.is_ok(), "[C16/ok] all three serializations succeed");
    assert!(same_sinks(&a, &b), "[C16/slice.bytes] a slice of zero-sized elements serializes like the vector");
    assert!(same_sinks(&a, &d), "[C16/iter.bytes] an iterator over zero-sized elements serializes like the vector");
    core::mem::forget((ra, rb, rd));
    kani::cover!(n == 3, "[cover] three items reached");
    kani::cover!(n == 0, "[cover] empty reached");
}
