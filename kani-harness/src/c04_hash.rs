//! C04: bytes written as one type are never accepted as a different type
//! (closed-term obligations over the near-miss universe of nm.rs and over the
//! built-in constructors), and interchangeable types share both hashes.

use crate::lemmas::*;
use crate::nm;
use crate::sinks::*;
use crate::types::*;
use core::hash::Hasher;
use core::ops::{Bound, ControlFlow};
use epserde::deser::{self, Deserialize};
use epserde::impls::iter::SerIter;
use epserde::ser::Serialize;
use epserde::traits::{AlignHash, TypeHash};

pub fn digests<T: TypeHash + AlignHash + ?Sized>() -> (u64, u64) {
    let mut th = xxhash_rust::xxh3::Xxh3::new();
    T::type_hash(&mut th);
    let mut ah = xxhash_rust::xxh3::Xxh3::new();
    let mut off = 0usize;
    T::align_hash(&mut ah, &mut off);
    (th.finish(), ah.finish())
}

macro_rules! differ {
    ($a:ty, $b:ty) => {
        assert!(digests::<$a>() != digests::<$b>(), "[C04/differ] structurally different types differ in the type hash or in the alignment hash");
    };
}
macro_rules! type_differ {
    ($a:ty, $b:ty) => {
        assert!(digests::<$a>().0 != digests::<$b>().0, "[C04/differ.type] types that differ in names, order, field types or parameters differ in the type hash");
    };
}
macro_rules! same {
    ($a:ty, $b:ty) => {
        assert!(digests::<$a>() == digests::<$b>(), "[C04/share] types documented as interchangeable share both hashes");
    };
}

// @h nm_structs props=C04,C05 tier=quick kind=complete vars="closed terms: derived struct near-misses (renamed, swapped, retyped, toggled copy kind, repr, type name)" fns="derive:TypeHash,derive:AlignHash,traits/type_info.rs:std_align_hash"
#[kani::proof]
pub fn nm_structs() {
    type_differ!(nm::base::P, nm::renamed::P);
    type_differ!(nm::base::P, nm::swapped::P);
    type_differ!(nm::base::P, nm::retyped::P);
    type_differ!(nm::base::P, nm::toggled::P);
    type_differ!(nm::base::P, nm::named::R);
    type_differ!(nm::base::Z, nm::renamed::Z);
    type_differ!(nm::base::Z, nm::swapped::Z);
    type_differ!(nm::base::Z, nm::retyped::Z);
    type_differ!(nm::base::Z, nm::toggled::Z);
    // layout-only difference: same names and types, different representation
    differ!(nm::base::Z, nm::repr::Z);
    assert!(digests::<nm::base::Z>().1 != digests::<nm::repr::Z>().1, "[C04/differ.layout] a representation attribute changes the alignment hash");
    assert!(digests::<nm::align8::W>().1 != digests::<nm::align16::W>().1, "[C04/differ.layout] the argument of a representation attribute changes the alignment hash");
    assert!(digests::<(nm::align8::W,)>().1 != digests::<(nm::align16::W,)>().1, "[C04/differ.layout] the representation of the element type reaches the alignment hash of a tuple");
    assert!(digests::<(nm::base::Z, nm::base::Z)>().1 != digests::<(nm::repr::Z, nm::repr::Z)>().1, "[C04/differ.layout] the representation of the element type reaches the alignment hash of a tuple");
    assert!(digests::<[nm::align8::W; 2]>().1 != digests::<[nm::align16::W; 2]>().1, "[C04/differ.layout] the representation of the element type reaches the alignment hash of an array");
    assert!(digests::<Vec<nm::align8::W>>().1 != digests::<Vec<nm::align16::W>>().1, "[C04/differ.layout] the representation of the element type reaches the alignment hash of a vector");
    assert!(digests::<Option<nm::align8::W>>().1 != digests::<Option<nm::align16::W>>().1, "[C04/differ.layout] the representation of the payload type reaches the alignment hash of an option");
    assert!(digests::<nm::base::Z>().1 != digests::<nm::swapped::Z>().1, "[C04/differ.layout] field order of a zero-copy type changes the alignment hash");
}

// @h nm_enums_consts props=C04,C05 tier=quick kind=complete vars="closed terms: enum variant renamed/reordered/retyped; const value and const name; generic argument" fns="derive:TypeHash (enum, const generics)"
#[kani::proof]
pub fn nm_enums_consts() {
    type_differ!(nm::base::E, nm::renamed::E);
    type_differ!(nm::base::E, nm::swapped::E);
    type_differ!(nm::base::E, nm::retyped::E);
    type_differ!(nm::base::Q<1>, nm::base::Q<2>);
    type_differ!(nm::base::Q<1>, nm::renamed::Q<1>);
    type_differ!(ZC2<1, 2>, ZC2<2, 1>);
    type_differ!(nm::base::G<u32>, nm::base::G<i32>);
    type_differ!(nm::base::G<Vec<u8>>, nm::base::G<Box<[u8]>>);
}

// @h nm_builtin props=C04 tier=quick kind=complete vars="closed terms: sequence kind, array length, tuple arity, sum kinds, strings, primitives" fns="impls/*.rs:TypeHash,impls/*.rs:AlignHash"
#[kani::proof]
pub fn nm_builtin() {
    type_differ!(Vec<u32>, Box<[u32]>);
    type_differ!(Vec<u32>, [u32; 2]);
    type_differ!([u32; 2], [u32; 3]);
    type_differ!((u32, u32), (u32, u32, u32));
    type_differ!((u32, u32), [u32; 2]);
    type_differ!(Option<u32>, Bound<u32>);
    type_differ!(Option<u32>, Vec<u32>);
    type_differ!(Option<Option<u32>>, Option<u32>);
    type_differ!(ControlFlow<u8, u16>, ControlFlow<u16, u8>);
    type_differ!(String, Box<str>);
    type_differ!(String, Vec<u8>);
    type_differ!(u32, i32);
    type_differ!(u32, f32);
    type_differ!(usize, u64);
    type_differ!(core::ops::Range<u32>, core::ops::RangeInclusive<u32>);
    type_differ!(core::ops::Range<u32>, (u32, u32));
    type_differ!(core::marker::PhantomData<u32>, core::marker::PhantomData<i32>);
    type_differ!(Vec<Vec<u8>>, Vec<u8>);
    // zero-copy layout: the same type hash would not be enough here
    differ!(Vec<Z8>, Vec<ZT>);
}

// @h share_hashes props=C04,C16 tier=quick kind=complete vars="closed terms: &[T], SerIter<T>, Vec<T> for T in {u16, Z8}" fns="impls/slice.rs:TypeHash,impls/iter.rs:TypeHash,impls/vec.rs:TypeHash"
#[kani::proof]
pub fn share_hashes() {
    same!(&[u16], Vec<u16>);
    same!(SerIter<'static, u16, core::slice::Iter<'static, u16>>, Vec<u16>);
    same!(&[Z8], Vec<Z8>);
    same!(SerIter<'static, Z8, core::slice::Iter<'static, Z8>>, Vec<Z8>);
}

/// bytes of T offered as U: a hash error, never a value (both modes)
macro_rules! cross {
    ($name:ident, $t:ty, $mk:expr, $u:ty, $cap:expr) => {
        #[kani::proof]
        #[kani::unwind(9)]
        #[kani::stub(std::string::String::from_utf8, crate::lemmas::stub_from_utf8)]
        pub fn $name() {
            let v: $t = $mk;
            let mut sink = ArrSink::<$cap>::new();
            let r = v.serialize(&mut sink);
            assert!(r.is_ok(), "[C01/ser.ok] serialization into an infallible sink succeeds");
            let n = sink.len;
            let mut src: &[u8] = &sink.buf[..n];
            let rf = <$u>::deserialize_full(&mut src);
            assert!(matches!(rf, Err(deser::Error::WrongTypeHash { .. }) | Err(deser::Error::WrongAlignHash { .. })),
                "[C04/cross.full] bytes of T offered as a structurally different U yield a hash error (full copy)");
            core::mem::forget(rf);
            let re = <$u>::deserialize_eps(&sink.buf[..n]);
            assert!(matches!(re, Err(deser::Error::WrongTypeHash { .. }) | Err(deser::Error::WrongAlignHash { .. })),
                "[C04/cross.eps] bytes of T offered as a structurally different U yield a hash error (eps copy)");
            core::mem::forget(re);
        }
    };
}
// @h cross_renamed props=C04 tier=quick kind=complete vars="v:base::P (fields symbolic) read as renamed::P" fns="deser/mod.rs:check_header"
cross!(cross_renamed, nm::base::P, nm::base::P { a: kani::any(), b: kani::any() }, nm::renamed::P, 128);
// @h cross_layout props=C04 tier=quick kind=complete vars="v:base::Z read as repr::Z (same type hash inputs except layout)" fns="deser/mod.rs:check_header"
cross!(cross_layout, nm::base::Z, nm::base::Z { a: kani::any(), b: kani::any() }, nm::repr::Z, 128);
// @h cross_toggled props=C04 tier=thorough kind=complete vars="v:base::P read as toggled::P (zero-copy)" fns="deser/mod.rs:check_header"
cross!(cross_toggled, nm::base::P, nm::base::P { a: kani::any(), b: kani::any() }, nm::toggled::P, 128);

pub fn type_digest<T: TypeHash + ?Sized>() -> u64 {
    let mut th = xxhash_rust::xxh3::Xxh3::new();
    T::type_hash(&mut th);
    th.finish()
}

/// digest of a pinned recipe: the items are fed the way `str::hash` / `usize::hash` feed them
pub enum It {
    S(&'static str),
    U(usize),
}
pub fn recipe_digest(items: &[It]) -> u64 {
    use core::hash::Hash;
    let mut h = xxhash_rust::xxh3::Xxh3::new();
    for it in items {
        match it {
            It::S(s) => s.hash(&mut h),
            It::U(u) => u.hash(&mut h),
        }
    }
    h.finish()
}
macro_rules! pinned {
    ($t:ty, $($it:expr),+) => {{
        // computed once (two xxh3 runs per type), asserted for both properties on
        // branches of their own
        let same = type_digest::<$t>() == recipe_digest(&[$($it),+]);
        crate::check_each!(
            (same, "[C06/typehash.pinned] the type hash is the published function of the type's structure (format 1.1 names)"),
            (same, "[C04/typehash.recipe] the type hash feeds the whole published recipe (names, lengths as pointer-width words, parameters): what keeps distinct types apart")
        );
    }};
}

// The names below are those of format version 1.1 as published (contracts/FORMAT.md);
// a symmetric change of the hashed spelling (writer and reader share the impl) keeps
// every round trip and every near-miss comparison intact and is visible only here.
// @h th_pinned_ints props=C06 tier=quick kind=complete vars="closed terms: the 12 integer primitives" fns="impls/prim.rs:TypeHash (impl_prim_type_hash!)"
#[kani::proof]
#[kani::unwind(20)]
pub fn th_pinned_ints() {
    pinned!(u8, It::S("u8"));
    pinned!(u16, It::S("u16"));
    pinned!(u32, It::S("u32"));
    pinned!(u64, It::S("u64"));
    pinned!(u128, It::S("u128"));
    pinned!(usize, It::S("usize"));
    pinned!(i8, It::S("i8"));
    pinned!(i16, It::S("i16"));
    pinned!(i32, It::S("i32"));
    pinned!(i64, It::S("i64"));
    pinned!(i128, It::S("i128"));
    pinned!(isize, It::S("isize"));
}

// @h th_pinned_misc props=C06 tier=quick kind=complete vars="closed terms: f32, f64, bool, char, unit" fns="impls/prim.rs:TypeHash (impl_prim_type_hash!)"
#[kani::proof]
#[kani::unwind(20)]
pub fn th_pinned_misc() {
    pinned!(f32, It::S("f32"));
    pinned!(f64, It::S("f64"));
    pinned!(bool, It::S("bool"));
    pinned!(char, It::S("char"));
    pinned!((), It::S("()"));
}

// @h th_pinned_nonzero props=C06 tier=quick kind=complete vars="closed terms: the 12 non-zero integer types" fns="impls/prim.rs:TypeHash (impl_prim_type_hash!)"
#[kani::proof]
#[kani::unwind(20)]
pub fn th_pinned_nonzero() {
    use core::num::*;
    pinned!(NonZeroU8, It::S("NonZeroU8"));
    pinned!(NonZeroU16, It::S("NonZeroU16"));
    pinned!(NonZeroU32, It::S("NonZeroU32"));
    pinned!(NonZeroU64, It::S("NonZeroU64"));
    pinned!(NonZeroU128, It::S("NonZeroU128"));
    pinned!(NonZeroUsize, It::S("NonZeroUsize"));
    pinned!(NonZeroI8, It::S("NonZeroI8"));
    pinned!(NonZeroI16, It::S("NonZeroI16"));
    pinned!(NonZeroI32, It::S("NonZeroI32"));
    pinned!(NonZeroI64, It::S("NonZeroI64"));
    pinned!(NonZeroI128, It::S("NonZeroI128"));
    pinned!(NonZeroIsize, It::S("NonZeroIsize"));
}

// @h th_pinned_ctors props=C06,C04 tier=quick kind=complete vars="closed terms: one instance of each built-in type constructor" fns="impls/*.rs:TypeHash"
#[kani::proof]
#[kani::unwind(30)]
pub fn th_pinned_ctors() {
    pinned!(Vec<u8>, It::S("Vec"), It::S("u8"));
    pinned!(Box<[u16]>, It::S("Box<[]>"), It::S("u16"));
    pinned!(String, It::S("String"));
    pinned!(Box<str>, It::S("Box<str>"));
    pinned!(Option<u32>, It::S("Option"), It::S("u32"));
    pinned!(core::marker::PhantomData<i8>, It::S("PhantomData"), It::S("i8"));
    pinned!([u16; 3], It::S("[]"), It::U(3), It::S("u16"));
    pinned!((u8, u8), It::S("()"), It::S("u8"), It::S("u8"));
    pinned!(Bound<u8>, It::S("core::ops::Bound"), It::S("u8"));
    pinned!(ControlFlow<u8, u16>, It::S("core::ops::ControlFlow"), It::S("u8"), It::S("u16"));
    pinned!(core::ops::RangeFull, It::S("core::ops::RangeFull"));
    pinned!(core::ops::Range<u8>, It::S("core :: ops :: Range"), It::S("u8"));
    pinned!(core::ops::RangeTo<u8>, It::S("core :: ops :: RangeTo"), It::S("u8"));
    pinned!(core::ops::RangeFrom<u8>, It::S("core :: ops :: RangeFrom"), It::S("u8"));
    pinned!(core::ops::RangeInclusive<u8>, It::S("core :: ops :: RangeInclusive"), It::S("u8"));
    pinned!(core::ops::RangeToInclusive<u8>, It::S("core :: ops :: RangeToInclusive"), It::S("u8"));
    pinned!(&[u16], It::S("Vec"), It::S("u16"));
}
