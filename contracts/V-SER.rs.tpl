// V-SER: the serialization layer against the same grammar the deserialization
// layer is checked against (C01 for all values and lengths: `parse(enc(v)) = v`;
// C13: a failed write leaves a prefix of the encoding; C07 padding).
// Generated file: the template is /verif/contracts/V-SER.rs.tpl.
#![feature(allocator_api)]
#![allow(unused_imports, unused_variables, dead_code)]
use vstd::prelude::*;
// the imports of the source files the items come from (path spelling is not semantics)
use core::marker::PhantomData;
use core::ops::{Bound, ControlFlow};
use core::alloc::Allocator;
// path spellings of the source files (`deser::Error`, `ser::Result`, ...) resolve inside the
// unit as they do in the crate: a change that merely writes a path differently stays decidable
mod deser { pub use super::{Error, Result}; }
mod ser { pub use super::SError as Error; pub use super::SResult as Result; }
verus! {

global size_of usize == 8;

//@include inc/pad_defs.rs

// the padding function under its V-PAD contract (proved there, assumed here)
#[verifier::external_body]
pub fn pad_align_to(value: usize, align_to: usize) -> (r: usize)
    requires is_pow2(align_to as int),
    ensures r < align_to,
            r as int == pad_spec(value as int, align_to as int),
{ unimplemented!() }

pub assume_specification<T>[ <[T]>::as_ptr ](s: &[T]) -> (r: *const T);

//@include inc/deser_base.tpl

//@include inc/deser_impls.tpl

//@include inc/deser_vec.tpl

// @@V-SER: obligations counted from here (the text above is the V-DESER unit, counted there)

//@include inc/ser_prelude.rs

//@include inc/ser_base.tpl

//@include inc/ser_spec.tpl

//@include inc/ser_impls.tpl

//@include inc/ser_vec.tpl

} // verus!
fn main() {}
