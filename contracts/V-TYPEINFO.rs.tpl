// V-TYPEINFO: TypeHash / AlignHash / MaxSizeOf recipes (C04, C06, C07), for all
// type parameters. Generated file: template /verif/contracts/V-TYPEINFO.rs.tpl.
#![allow(unused_imports, unused_variables, dead_code)]
use vstd::prelude::*;
use core::hash::{Hash, Hasher};
use core::num::*;
verus! {

global size_of usize == 8;

//@include inc/pad_defs.rs

#[verifier::external_body]
pub fn pad_align_to(value: usize, align_to: usize) -> (r: usize)
    requires is_pow2(align_to as int),
    ensures r < align_to,
            r as int == pad_spec(value as int, align_to as int),
{ unimplemented!() }

// ---- the hash feed ------------------------------------------------------------
// std: `str::hash` feeds the bytes and a 0xff terminator, `usize::hash` and
// `Hasher::write_usize` feed 8 bytes: the encodings are injective and
// prefix-free, which is all that matters; the feed is modelled as a sequence of
// items. xxh3 is assumed collision-free on feeds (the only way a 64-bit digest
// can carry C04).

pub enum HItem {
    Str(Seq<char>),
    Usize(nat),
    /// a fixed-width integer write of `width` bytes (not part of any published recipe:
    /// present so that code feeding one is decided rather than rejected)
    Fixed(nat, nat),
}

#[verifier::external_trait_specification]
pub trait ExHasher {
    type ExternalTraitSpecificationFor: core::hash::Hasher;
    fn write_usize(&mut self, i: usize)
        ensures feed(final(self)) == feed(old(self)).push(HItem::Usize(i as nat));
    fn write_u8(&mut self, i: u8)
        ensures feed(final(self)) == feed(old(self)).push(HItem::Fixed(1, i as nat));
    fn write_u16(&mut self, i: u16)
        ensures feed(final(self)) == feed(old(self)).push(HItem::Fixed(2, i as nat));
    fn write_u32(&mut self, i: u32)
        ensures feed(final(self)) == feed(old(self)).push(HItem::Fixed(4, i as nat));
    fn write_u64(&mut self, i: u64)
        ensures feed(final(self)) == feed(old(self)).push(HItem::Fixed(8, i as nat));
}

pub uninterp spec fn feed<H: ?Sized>(h: &H) -> Seq<HItem>;

pub assume_specification<H: Hasher>[ <str as Hash>::hash::<H> ](s: &str, h: &mut H)
    ensures feed(final(h)) == feed(old(h)).push(HItem::Str(s@));

pub assume_specification<H: Hasher>[ <usize as Hash>::hash::<H> ](s: &usize, h: &mut H)
    ensures feed(final(h)) == feed(old(h)).push(HItem::Usize(*s as nat));

// ---- traits (verbatim) ----------------------------------------------------------

//@item epserde/src/traits/type_info.rs props=C04,C06 name=TypeHash <<pub trait TypeHash {>>
//@  drop <<fn type_hash_val(&self, hasher: &mut impl core::hash::Hasher) {>>
//@  body_prefix
//@|    /// the published type-hash recipe of Self, as a feed (ghost)
//@|    spec fn th() -> Seq<HItem>;
//@  sub <<fn type_hash(hasher: &mut impl core::hash::Hasher);>>
//@  impl_arg
//@  spec
//@|        ensures feed(final(hasher)) =~= feed(old(hasher)) + Self::th(),
//@end


//@item epserde/src/impls/prim.rs props=C04,C06 name=Option::TypeHash <<impl<T: TypeHash> TypeHash for Option<T> {>>
//@  body_prefix
//@|    open spec fn th() -> Seq<HItem> { seq![HItem::Str("Option"@)] + T::th() }
//@  sub <<fn type_hash(>>
//@  impl_arg
//@end

//@item epserde/src/impls/vec.rs props=C04,C06 name=Vec::TypeHash <<impl<T: TypeHash> TypeHash for Vec<T> {>>
//@  body_prefix
//@|    open spec fn th() -> Seq<HItem> { seq![HItem::Str("Vec"@)] + T::th() }
//@  sub <<fn type_hash(>>
//@  impl_arg
//@end

//@item epserde/src/impls/boxed_slice.rs props=C04,C06 name=BoxSlice::TypeHash <<impl<T: TypeHash> TypeHash for Box<[T]> {>>
//@  body_prefix
//@|    open spec fn th() -> Seq<HItem> { seq![HItem::Str("Box<[]>"@)] + T::th() }
//@  sub <<fn type_hash(>>
//@  impl_arg
//@end

//@item epserde/src/impls/string.rs props=C04,C06 name=String::TypeHash <<impl TypeHash for String {>>
//@  body_prefix
//@|    open spec fn th() -> Seq<HItem> { seq![HItem::Str("String"@)] }
//@  sub <<fn type_hash(>>
//@  impl_arg
//@end

//@item epserde/src/impls/string.rs props=C04,C06 name=BoxStr::TypeHash <<impl TypeHash for Box<str> {>>
//@  body_prefix
//@|    open spec fn th() -> Seq<HItem> { seq![HItem::Str("Box<str>"@)] }
//@  sub <<fn type_hash(>>
//@  impl_arg
//@end

//@item epserde/src/impls/string.rs props=C04,C06 name=str::TypeHash <<impl TypeHash for str {>>
//@  body_prefix
//@|    open spec fn th() -> Seq<HItem> { seq![HItem::Str("str"@)] }
//@  sub <<fn type_hash(>>
//@  impl_arg
//@end

//@item epserde/src/impls/prim.rs props=C04,C06 name=PhantomData::TypeHash <<impl<T: ?Sized + TypeHash> TypeHash for PhantomData<T> {>>
//@  replace <<PhantomData>> <<core::marker::PhantomData>>
//@  body_prefix
//@|    open spec fn th() -> Seq<HItem> { seq![HItem::Str("PhantomData"@)] + T::th() }
//@  sub <<fn type_hash(>>
//@  impl_arg
//@end

//@item epserde/src/impls/slice.rs props=C04,C16 name=SliceRef::TypeHash <<impl<T: TypeHash> TypeHash for &[T] {>>
//@  body_prefix
//@|    open spec fn th() -> Seq<HItem> { Vec::<T>::th() }
//@  sub <<fn type_hash(>>
//@  impl_arg
//@end

//@item @expanded props=C04,C06 name=u8::TypeHash <<impl TypeHash for u8 {>>
//@  body_prefix
//@|    open spec fn th() -> Seq<HItem> { seq![HItem::Str("u8"@)] }
//@  sub <<fn type_hash(>>
//@  impl_arg
//@end

//@item @expanded props=C04,C06 name=u16::TypeHash <<impl TypeHash for u16 {>>
//@  body_prefix
//@|    open spec fn th() -> Seq<HItem> { seq![HItem::Str("u16"@)] }
//@  sub <<fn type_hash(>>
//@  impl_arg
//@end

//@item @expanded props=C04,C06 name=u32::TypeHash <<impl TypeHash for u32 {>>
//@  body_prefix
//@|    open spec fn th() -> Seq<HItem> { seq![HItem::Str("u32"@)] }
//@  sub <<fn type_hash(>>
//@  impl_arg
//@end

//@item @expanded props=C04,C06 name=u64::TypeHash <<impl TypeHash for u64 {>>
//@  body_prefix
//@|    open spec fn th() -> Seq<HItem> { seq![HItem::Str("u64"@)] }
//@  sub <<fn type_hash(>>
//@  impl_arg
//@end

//@item @expanded props=C04,C06 name=u128::TypeHash <<impl TypeHash for u128 {>>
//@  body_prefix
//@|    open spec fn th() -> Seq<HItem> { seq![HItem::Str("u128"@)] }
//@  sub <<fn type_hash(>>
//@  impl_arg
//@end

//@item @expanded props=C04,C06 name=usize::TypeHash <<impl TypeHash for usize {>>
//@  body_prefix
//@|    open spec fn th() -> Seq<HItem> { seq![HItem::Str("usize"@)] }
//@  sub <<fn type_hash(>>
//@  impl_arg
//@end

//@item @expanded props=C04,C06 name=i8::TypeHash <<impl TypeHash for i8 {>>
//@  body_prefix
//@|    open spec fn th() -> Seq<HItem> { seq![HItem::Str("i8"@)] }
//@  sub <<fn type_hash(>>
//@  impl_arg
//@end

//@item @expanded props=C04,C06 name=i16::TypeHash <<impl TypeHash for i16 {>>
//@  body_prefix
//@|    open spec fn th() -> Seq<HItem> { seq![HItem::Str("i16"@)] }
//@  sub <<fn type_hash(>>
//@  impl_arg
//@end

//@item @expanded props=C04,C06 name=i32::TypeHash <<impl TypeHash for i32 {>>
//@  body_prefix
//@|    open spec fn th() -> Seq<HItem> { seq![HItem::Str("i32"@)] }
//@  sub <<fn type_hash(>>
//@  impl_arg
//@end

//@item @expanded props=C04,C06 name=i64::TypeHash <<impl TypeHash for i64 {>>
//@  body_prefix
//@|    open spec fn th() -> Seq<HItem> { seq![HItem::Str("i64"@)] }
//@  sub <<fn type_hash(>>
//@  impl_arg
//@end

//@item @expanded props=C04,C06 name=i128::TypeHash <<impl TypeHash for i128 {>>
//@  body_prefix
//@|    open spec fn th() -> Seq<HItem> { seq![HItem::Str("i128"@)] }
//@  sub <<fn type_hash(>>
//@  impl_arg
//@end

//@item @expanded props=C04,C06 name=isize::TypeHash <<impl TypeHash for isize {>>
//@  body_prefix
//@|    open spec fn th() -> Seq<HItem> { seq![HItem::Str("isize"@)] }
//@  sub <<fn type_hash(>>
//@  impl_arg
//@end

//@item @expanded props=C04,C06 name=f32::TypeHash <<impl TypeHash for f32 {>>
//@  body_prefix
//@|    open spec fn th() -> Seq<HItem> { seq![HItem::Str("f32"@)] }
//@  sub <<fn type_hash(>>
//@  impl_arg
//@end

//@item @expanded props=C04,C06 name=f64::TypeHash <<impl TypeHash for f64 {>>
//@  body_prefix
//@|    open spec fn th() -> Seq<HItem> { seq![HItem::Str("f64"@)] }
//@  sub <<fn type_hash(>>
//@  impl_arg
//@end

//@item @expanded props=C04,C06 name=bool::TypeHash <<impl TypeHash for bool {>>
//@  body_prefix
//@|    open spec fn th() -> Seq<HItem> { seq![HItem::Str("bool"@)] }
//@  sub <<fn type_hash(>>
//@  impl_arg
//@end

//@item @expanded props=C04,C06 name=char::TypeHash <<impl TypeHash for char {>>
//@  body_prefix
//@|    open spec fn th() -> Seq<HItem> { seq![HItem::Str("char"@)] }
//@  sub <<fn type_hash(>>
//@  impl_arg
//@end

//@item @expanded props=C04,C06 name=()::TypeHash <<impl TypeHash for () {>>
//@  body_prefix
//@|    open spec fn th() -> Seq<HItem> { seq![HItem::Str("()"@)] }
//@  sub <<fn type_hash(>>
//@  impl_arg
//@end

//@item @expanded props=C04,C06 name=NonZeroU8::TypeHash <<impl TypeHash for NonZeroU8 {>>
//@  body_prefix
//@|    open spec fn th() -> Seq<HItem> { seq![HItem::Str("NonZeroU8"@)] }
//@  sub <<fn type_hash(>>
//@  impl_arg
//@end

//@item @expanded props=C04,C06 name=NonZeroU64::TypeHash <<impl TypeHash for NonZeroU64 {>>
//@  body_prefix
//@|    open spec fn th() -> Seq<HItem> { seq![HItem::Str("NonZeroU64"@)] }
//@  sub <<fn type_hash(>>
//@  impl_arg
//@end

//@item @expanded props=C04,C06 name=NonZeroI128::TypeHash <<impl TypeHash for NonZeroI128 {>>
//@  body_prefix
//@|    open spec fn th() -> Seq<HItem> { seq![HItem::Str("NonZeroI128"@)] }
//@  sub <<fn type_hash(>>
//@  impl_arg
//@end

//@item @expanded props=C04,C06 name=NonZeroUsize::TypeHash <<impl TypeHash for NonZeroUsize {>>
//@  body_prefix
//@|    open spec fn th() -> Seq<HItem> { seq![HItem::Str("NonZeroUsize"@)] }
//@  sub <<fn type_hash(>>
//@  impl_arg
//@end


//@item @expanded props=C04,C06 name=Bound::TypeHash <<impl<T: TypeHash> TypeHash for core::ops::Bound<T> {>>
//@  body_prefix
//@|    open spec fn th() -> Seq<HItem> { seq![HItem::Str("core::ops::Bound"@)] + T::th() }
//@  sub <<fn type_hash(>>
//@  impl_arg
//@end

//@item @expanded props=C04,C06 name=ControlFlow::TypeHash <<impl<B: TypeHash, C: TypeHash> TypeHash for>>
//@  body_prefix
//@|    open spec fn th() -> Seq<HItem> { seq![HItem::Str("core::ops::ControlFlow"@)] + B::th() + C::th() }
//@  sub <<fn type_hash(>>
//@  impl_arg
//@end

//@item @expanded props=C04,C06 name=RangeFull::TypeHash <<impl TypeHash for core::ops::RangeFull {>>
//@  body_prefix
//@|    open spec fn th() -> Seq<HItem> { seq![HItem::Str("core::ops::RangeFull"@)] }
//@  sub <<fn type_hash(>>
//@  impl_arg
//@end

//@item @expanded props=C04,C06 name=tuple1::TypeHash back=impl <<TypeHash for (T11,) {>>
//@  body_prefix
//@|    open spec fn th() -> Seq<HItem> { seq![HItem::Str("()"@)] + T11::th() }
//@  sub <<fn type_hash(>>
//@  impl_arg
//@end

//@item @expanded props=C04,C06 name=tuple2::TypeHash back=impl <<TypeHash for (T10, T11) {>>
//@  body_prefix
//@|    open spec fn th() -> Seq<HItem> { seq![HItem::Str("()"@)] + T10::th() + T11::th() }
//@  sub <<fn type_hash(>>
//@  impl_arg
//@end

//@item @expanded props=C04,C06 name=tuple5::TypeHash back=impl <<TypeHash for (T7, T8, T9, T10, T11) {>>
//@  body_prefix
//@|    open spec fn th() -> Seq<HItem> { seq![HItem::Str("()"@)] + T7::th() + T8::th() + T9::th() + T10::th() + T11::th() }
//@  sub <<fn type_hash(>>
//@  impl_arg
//@end

//@item epserde/src/impls/array.rs props=C04,C06 name=array::TypeHash <<impl<T: TypeHash, const N: usize> TypeHash for [T; N] {>>
//@  body_prefix
//@|    open spec fn th() -> Seq<HItem> { seq![HItem::Str("[]"@), HItem::Usize(N as nat)] + T::th() }
//@  sub <<fn type_hash(>>
//@  impl_arg
//@end


// =========================================================================
// AlignHash: sizes, representation attributes and per-field padding
// =========================================================================

/// platform axiom: native alignments are powers of two
#[verifier::external_body]
pub proof fn axiom_align_pow2<T>()
    ensures is_pow2(vstd::layout::align_of::<T>() as int),
{}

/// the standard recipe for a zero-copy leaf at offset `off`: the padding to its
/// native alignment, then its size
pub open spec fn std_ah<T>(off: nat) -> Seq<HItem> {
    seq![
        HItem::Usize(pad_spec(off as int, vstd::layout::align_of::<T>() as int) as nat),
        HItem::Usize(vstd::layout::size_of::<T>()),
    ]
}
pub open spec fn std_ah_off<T>(off: nat) -> nat {
    (off + pad_spec(off as int, vstd::layout::align_of::<T>() as int) + vstd::layout::size_of::<T>()) as nat
}

//@item epserde/src/traits/type_info.rs props=C04,C06 name=AlignHash <<pub trait AlignHash {>>
//@  drop <<fn align_hash_val(&self, hasher: &mut impl core::hash::Hasher, offset_of: &mut usize) {>>
//@  body_prefix
//@|    /// the published alignment-hash recipe of Self at field offset `off` (ghost)
//@|    spec fn ah(off: nat) -> Seq<HItem>;
//@|    /// the field offset after Self
//@|    spec fn ah_off(off: nat) -> nat;
//@|    /// all offsets computed on the way stay within usize (machine arithmetic made explicit)
//@|    spec fn ah_fits(off: nat) -> bool;
//@  sub <<fn align_hash(_hasher: &mut impl core::hash::Hasher, _offset_of: &mut usize);>>
//@  impl_arg
//@  spec
//@|        // offsets stay within the address space (machine arithmetic made explicit)
//@|        requires Self::ah_fits(*old(_offset_of) as nat),
//@|        ensures feed(final(_hasher)) =~= feed(old(_hasher)) + Self::ah(*old(_offset_of) as nat),
//@|            *final(_offset_of) as nat == Self::ah_off(*old(_offset_of) as nat),
//@end

//@item epserde/src/traits/copy_type.rs name=CopySelector <<pub trait CopySelector {>>
//@end
//@item epserde/src/traits/copy_type.rs name=Zero <<pub struct Zero {}>>
//@end
//@item epserde/src/traits/copy_type.rs name=Zero::CopySelector <<impl CopySelector for Zero {>>
//@end
//@item epserde/src/traits/copy_type.rs name=CopyType <<pub trait CopyType: Sized {>>
//@end
//@item epserde/src/traits/type_info.rs props=C07 name=MaxSizeOf <<pub trait MaxSizeOf: Sized {>>
//@  body_prefix
//@|    spec fn unit() -> nat;
//@  sub <<fn max_size_of() -> usize;>>
//@  ret r
//@  spec
//@|        ensures r as nat == Self::unit(), is_pow2(r as int),
//@end
//@item epserde/src/traits/copy_type.rs name=ZeroCopy <<pub trait ZeroCopy: CopyType<Copy = Zero> + Copy + MaxSizeOf + 'static {}>>
//@end
//@item epserde/src/traits/copy_type.rs name=ZeroCopy::blanket <<impl<T: CopyType<Copy = Zero> + Copy + MaxSizeOf + 'static> ZeroCopy for T {}>>
//@end

//@item epserde/src/traits/type_info.rs props=C04,C06 name=std_align_hash <<pub(crate) fn std_align_hash<T: ZeroCopy>(>>
//@  impl_arg
//@  spec
//@|    requires std_ah_off::<T>(*old(offset_of) as nat) <= usize::MAX,
//@|    ensures feed(final(hasher)) =~= feed(old(hasher)) + std_ah::<T>(*old(offset_of) as nat),
//@|        *final(offset_of) as nat == std_ah_off::<T>(*old(offset_of) as nat),
//@  body_prefix
//@|    proof { axiom_align_pow2::<T>(); }
//@end


/// platform axiom (x86-64 / any 64-bit Rust target): sizes of the primitive types
#[verifier::external_body]
pub proof fn axiom_prim_sizes()
    ensures
        vstd::layout::size_of::<u8>() == 1, vstd::layout::size_of::<u16>() == 2, vstd::layout::size_of::<u32>() == 4,
        vstd::layout::size_of::<u64>() == 8, vstd::layout::size_of::<u128>() == 16, vstd::layout::size_of::<usize>() == 8,
        vstd::layout::size_of::<i8>() == 1, vstd::layout::size_of::<i16>() == 2, vstd::layout::size_of::<i32>() == 4,
        vstd::layout::size_of::<i64>() == 8, vstd::layout::size_of::<i128>() == 16, vstd::layout::size_of::<isize>() == 8,
        vstd::layout::size_of::<f32>() == 4, vstd::layout::size_of::<f64>() == 8,
        vstd::layout::size_of::<bool>() == 1, vstd::layout::size_of::<char>() == 4, vstd::layout::size_of::<()>() == 0,
        vstd::layout::size_of::<NonZeroU8>() == 1, vstd::layout::size_of::<NonZeroU64>() == 8,
        vstd::layout::size_of::<NonZeroI128>() == 16, vstd::layout::size_of::<NonZeroUsize>() == 8,
{}


//@item @expanded name=u8::CopyType <<impl CopyType for u8 {>>
//@end
//@item @expanded props=C07 name=u8::MaxSizeOf <<impl MaxSizeOf for u8 {>>
//@  body_prefix
//@|    open spec fn unit() -> nat { if vstd::layout::size_of::<u8>() == 0 { 1 } else { vstd::layout::size_of::<u8>() } }
//@  sub <<fn max_size_of() -> usize {>>
//@  ret r
//@  body_prefix
//@|        proof { axiom_prim_sizes(); }
//@end

//@item @expanded name=u16::CopyType <<impl CopyType for u16 {>>
//@end
//@item @expanded props=C07 name=u16::MaxSizeOf <<impl MaxSizeOf for u16 {>>
//@  body_prefix
//@|    open spec fn unit() -> nat { if vstd::layout::size_of::<u16>() == 0 { 1 } else { vstd::layout::size_of::<u16>() } }
//@  sub <<fn max_size_of() -> usize {>>
//@  ret r
//@  body_prefix
//@|        proof { axiom_prim_sizes(); }
//@end

//@item @expanded name=u32::CopyType <<impl CopyType for u32 {>>
//@end
//@item @expanded props=C07 name=u32::MaxSizeOf <<impl MaxSizeOf for u32 {>>
//@  body_prefix
//@|    open spec fn unit() -> nat { if vstd::layout::size_of::<u32>() == 0 { 1 } else { vstd::layout::size_of::<u32>() } }
//@  sub <<fn max_size_of() -> usize {>>
//@  ret r
//@  body_prefix
//@|        proof { axiom_prim_sizes(); }
//@end

//@item @expanded name=u64::CopyType <<impl CopyType for u64 {>>
//@end
//@item @expanded props=C07 name=u64::MaxSizeOf <<impl MaxSizeOf for u64 {>>
//@  body_prefix
//@|    open spec fn unit() -> nat { if vstd::layout::size_of::<u64>() == 0 { 1 } else { vstd::layout::size_of::<u64>() } }
//@  sub <<fn max_size_of() -> usize {>>
//@  ret r
//@  body_prefix
//@|        proof { axiom_prim_sizes(); }
//@end

//@item @expanded name=u128::CopyType <<impl CopyType for u128 {>>
//@end
//@item @expanded props=C07 name=u128::MaxSizeOf <<impl MaxSizeOf for u128 {>>
//@  body_prefix
//@|    open spec fn unit() -> nat { if vstd::layout::size_of::<u128>() == 0 { 1 } else { vstd::layout::size_of::<u128>() } }
//@  sub <<fn max_size_of() -> usize {>>
//@  ret r
//@  body_prefix
//@|        proof { axiom_prim_sizes(); }
//@end

//@item @expanded name=usize::CopyType <<impl CopyType for usize {>>
//@end
//@item @expanded props=C07 name=usize::MaxSizeOf <<impl MaxSizeOf for usize {>>
//@  body_prefix
//@|    open spec fn unit() -> nat { if vstd::layout::size_of::<usize>() == 0 { 1 } else { vstd::layout::size_of::<usize>() } }
//@  sub <<fn max_size_of() -> usize {>>
//@  ret r
//@  body_prefix
//@|        proof { axiom_prim_sizes(); }
//@end

//@item @expanded name=i8::CopyType <<impl CopyType for i8 {>>
//@end
//@item @expanded props=C07 name=i8::MaxSizeOf <<impl MaxSizeOf for i8 {>>
//@  body_prefix
//@|    open spec fn unit() -> nat { if vstd::layout::size_of::<i8>() == 0 { 1 } else { vstd::layout::size_of::<i8>() } }
//@  sub <<fn max_size_of() -> usize {>>
//@  ret r
//@  body_prefix
//@|        proof { axiom_prim_sizes(); }
//@end

//@item @expanded name=i16::CopyType <<impl CopyType for i16 {>>
//@end
//@item @expanded props=C07 name=i16::MaxSizeOf <<impl MaxSizeOf for i16 {>>
//@  body_prefix
//@|    open spec fn unit() -> nat { if vstd::layout::size_of::<i16>() == 0 { 1 } else { vstd::layout::size_of::<i16>() } }
//@  sub <<fn max_size_of() -> usize {>>
//@  ret r
//@  body_prefix
//@|        proof { axiom_prim_sizes(); }
//@end

//@item @expanded name=i32::CopyType <<impl CopyType for i32 {>>
//@end
//@item @expanded props=C07 name=i32::MaxSizeOf <<impl MaxSizeOf for i32 {>>
//@  body_prefix
//@|    open spec fn unit() -> nat { if vstd::layout::size_of::<i32>() == 0 { 1 } else { vstd::layout::size_of::<i32>() } }
//@  sub <<fn max_size_of() -> usize {>>
//@  ret r
//@  body_prefix
//@|        proof { axiom_prim_sizes(); }
//@end

//@item @expanded name=i64::CopyType <<impl CopyType for i64 {>>
//@end
//@item @expanded props=C07 name=i64::MaxSizeOf <<impl MaxSizeOf for i64 {>>
//@  body_prefix
//@|    open spec fn unit() -> nat { if vstd::layout::size_of::<i64>() == 0 { 1 } else { vstd::layout::size_of::<i64>() } }
//@  sub <<fn max_size_of() -> usize {>>
//@  ret r
//@  body_prefix
//@|        proof { axiom_prim_sizes(); }
//@end

//@item @expanded name=i128::CopyType <<impl CopyType for i128 {>>
//@end
//@item @expanded props=C07 name=i128::MaxSizeOf <<impl MaxSizeOf for i128 {>>
//@  body_prefix
//@|    open spec fn unit() -> nat { if vstd::layout::size_of::<i128>() == 0 { 1 } else { vstd::layout::size_of::<i128>() } }
//@  sub <<fn max_size_of() -> usize {>>
//@  ret r
//@  body_prefix
//@|        proof { axiom_prim_sizes(); }
//@end

//@item @expanded name=isize::CopyType <<impl CopyType for isize {>>
//@end
//@item @expanded props=C07 name=isize::MaxSizeOf <<impl MaxSizeOf for isize {>>
//@  body_prefix
//@|    open spec fn unit() -> nat { if vstd::layout::size_of::<isize>() == 0 { 1 } else { vstd::layout::size_of::<isize>() } }
//@  sub <<fn max_size_of() -> usize {>>
//@  ret r
//@  body_prefix
//@|        proof { axiom_prim_sizes(); }
//@end

//@item @expanded name=f32::CopyType <<impl CopyType for f32 {>>
//@end
//@item @expanded props=C07 name=f32::MaxSizeOf <<impl MaxSizeOf for f32 {>>
//@  body_prefix
//@|    open spec fn unit() -> nat { if vstd::layout::size_of::<f32>() == 0 { 1 } else { vstd::layout::size_of::<f32>() } }
//@  sub <<fn max_size_of() -> usize {>>
//@  ret r
//@  body_prefix
//@|        proof { axiom_prim_sizes(); }
//@end

//@item @expanded name=f64::CopyType <<impl CopyType for f64 {>>
//@end
//@item @expanded props=C07 name=f64::MaxSizeOf <<impl MaxSizeOf for f64 {>>
//@  body_prefix
//@|    open spec fn unit() -> nat { if vstd::layout::size_of::<f64>() == 0 { 1 } else { vstd::layout::size_of::<f64>() } }
//@  sub <<fn max_size_of() -> usize {>>
//@  ret r
//@  body_prefix
//@|        proof { axiom_prim_sizes(); }
//@end

//@item @expanded name=bool::CopyType <<impl CopyType for bool {>>
//@end
//@item @expanded props=C07 name=bool::MaxSizeOf <<impl MaxSizeOf for bool {>>
//@  body_prefix
//@|    open spec fn unit() -> nat { if vstd::layout::size_of::<bool>() == 0 { 1 } else { vstd::layout::size_of::<bool>() } }
//@  sub <<fn max_size_of() -> usize {>>
//@  ret r
//@  body_prefix
//@|        proof { axiom_prim_sizes(); }
//@end

//@item @expanded name=char::CopyType <<impl CopyType for char {>>
//@end
//@item @expanded props=C07 name=char::MaxSizeOf <<impl MaxSizeOf for char {>>
//@  body_prefix
//@|    open spec fn unit() -> nat { if vstd::layout::size_of::<char>() == 0 { 1 } else { vstd::layout::size_of::<char>() } }
//@  sub <<fn max_size_of() -> usize {>>
//@  ret r
//@  body_prefix
//@|        proof { axiom_prim_sizes(); }
//@end

//@item @expanded name=()::CopyType <<impl CopyType for () {>>
//@end
//@item @expanded props=C07 name=()::MaxSizeOf <<impl MaxSizeOf for () {>>
//@  body_prefix
//@|    open spec fn unit() -> nat { if vstd::layout::size_of::<()>() == 0 { 1 } else { vstd::layout::size_of::<()>() } }
//@  sub <<fn max_size_of() -> usize {>>
//@  ret r
//@  body_prefix
//@|        proof { axiom_prim_sizes(); }
//@end

//@item @expanded name=NonZeroU8::CopyType <<impl CopyType for NonZeroU8 {>>
//@end
//@item @expanded props=C07 name=NonZeroU8::MaxSizeOf <<impl MaxSizeOf for NonZeroU8 {>>
//@  body_prefix
//@|    open spec fn unit() -> nat { if vstd::layout::size_of::<NonZeroU8>() == 0 { 1 } else { vstd::layout::size_of::<NonZeroU8>() } }
//@  sub <<fn max_size_of() -> usize {>>
//@  ret r
//@  body_prefix
//@|        proof { axiom_prim_sizes(); }
//@end

//@item @expanded name=NonZeroU64::CopyType <<impl CopyType for NonZeroU64 {>>
//@end
//@item @expanded props=C07 name=NonZeroU64::MaxSizeOf <<impl MaxSizeOf for NonZeroU64 {>>
//@  body_prefix
//@|    open spec fn unit() -> nat { if vstd::layout::size_of::<NonZeroU64>() == 0 { 1 } else { vstd::layout::size_of::<NonZeroU64>() } }
//@  sub <<fn max_size_of() -> usize {>>
//@  ret r
//@  body_prefix
//@|        proof { axiom_prim_sizes(); }
//@end

//@item @expanded name=NonZeroI128::CopyType <<impl CopyType for NonZeroI128 {>>
//@end
//@item @expanded props=C07 name=NonZeroI128::MaxSizeOf <<impl MaxSizeOf for NonZeroI128 {>>
//@  body_prefix
//@|    open spec fn unit() -> nat { if vstd::layout::size_of::<NonZeroI128>() == 0 { 1 } else { vstd::layout::size_of::<NonZeroI128>() } }
//@  sub <<fn max_size_of() -> usize {>>
//@  ret r
//@  body_prefix
//@|        proof { axiom_prim_sizes(); }
//@end

//@item @expanded name=NonZeroUsize::CopyType <<impl CopyType for NonZeroUsize {>>
//@end
//@item @expanded props=C07 name=NonZeroUsize::MaxSizeOf <<impl MaxSizeOf for NonZeroUsize {>>
//@  body_prefix
//@|    open spec fn unit() -> nat { if vstd::layout::size_of::<NonZeroUsize>() == 0 { 1 } else { vstd::layout::size_of::<NonZeroUsize>() } }
//@  sub <<fn max_size_of() -> usize {>>
//@  ret r
//@  body_prefix
//@|        proof { axiom_prim_sizes(); }
//@end

//@item @expanded props=C04,C06 name=u8::AlignHash <<impl AlignHash for u8 {>>
//@  replace <<crate::traits::std_align_hash::<Self>>> <<std_align_hash::<Self, _>>>
//@  body_prefix
//@|    open spec fn ah(off: nat) -> Seq<HItem> { std_ah::<Self>(off) }
//@|    open spec fn ah_off(off: nat) -> nat { std_ah_off::<Self>(off) }
//@|    open spec fn ah_fits(off: nat) -> bool { std_ah_off::<Self>(off) <= usize::MAX }
//@  sub <<fn align_hash(>>
//@  impl_arg
//@end

//@item @expanded props=C04,C06 name=u16::AlignHash <<impl AlignHash for u16 {>>
//@  replace <<crate::traits::std_align_hash::<Self>>> <<std_align_hash::<Self, _>>>
//@  body_prefix
//@|    open spec fn ah(off: nat) -> Seq<HItem> { std_ah::<Self>(off) }
//@|    open spec fn ah_off(off: nat) -> nat { std_ah_off::<Self>(off) }
//@|    open spec fn ah_fits(off: nat) -> bool { std_ah_off::<Self>(off) <= usize::MAX }
//@  sub <<fn align_hash(>>
//@  impl_arg
//@end

//@item @expanded props=C04,C06 name=u32::AlignHash <<impl AlignHash for u32 {>>
//@  replace <<crate::traits::std_align_hash::<Self>>> <<std_align_hash::<Self, _>>>
//@  body_prefix
//@|    open spec fn ah(off: nat) -> Seq<HItem> { std_ah::<Self>(off) }
//@|    open spec fn ah_off(off: nat) -> nat { std_ah_off::<Self>(off) }
//@|    open spec fn ah_fits(off: nat) -> bool { std_ah_off::<Self>(off) <= usize::MAX }
//@  sub <<fn align_hash(>>
//@  impl_arg
//@end

//@item @expanded props=C04,C06 name=u64::AlignHash <<impl AlignHash for u64 {>>
//@  replace <<crate::traits::std_align_hash::<Self>>> <<std_align_hash::<Self, _>>>
//@  body_prefix
//@|    open spec fn ah(off: nat) -> Seq<HItem> { std_ah::<Self>(off) }
//@|    open spec fn ah_off(off: nat) -> nat { std_ah_off::<Self>(off) }
//@|    open spec fn ah_fits(off: nat) -> bool { std_ah_off::<Self>(off) <= usize::MAX }
//@  sub <<fn align_hash(>>
//@  impl_arg
//@end

//@item @expanded props=C04,C06 name=u128::AlignHash <<impl AlignHash for u128 {>>
//@  replace <<crate::traits::std_align_hash::<Self>>> <<std_align_hash::<Self, _>>>
//@  body_prefix
//@|    open spec fn ah(off: nat) -> Seq<HItem> { std_ah::<Self>(off) }
//@|    open spec fn ah_off(off: nat) -> nat { std_ah_off::<Self>(off) }
//@|    open spec fn ah_fits(off: nat) -> bool { std_ah_off::<Self>(off) <= usize::MAX }
//@  sub <<fn align_hash(>>
//@  impl_arg
//@end

//@item @expanded props=C04,C06 name=usize::AlignHash <<impl AlignHash for usize {>>
//@  replace <<crate::traits::std_align_hash::<Self>>> <<std_align_hash::<Self, _>>>
//@  body_prefix
//@|    open spec fn ah(off: nat) -> Seq<HItem> { std_ah::<Self>(off) }
//@|    open spec fn ah_off(off: nat) -> nat { std_ah_off::<Self>(off) }
//@|    open spec fn ah_fits(off: nat) -> bool { std_ah_off::<Self>(off) <= usize::MAX }
//@  sub <<fn align_hash(>>
//@  impl_arg
//@end

//@item @expanded props=C04,C06 name=i8::AlignHash <<impl AlignHash for i8 {>>
//@  replace <<crate::traits::std_align_hash::<Self>>> <<std_align_hash::<Self, _>>>
//@  body_prefix
//@|    open spec fn ah(off: nat) -> Seq<HItem> { std_ah::<Self>(off) }
//@|    open spec fn ah_off(off: nat) -> nat { std_ah_off::<Self>(off) }
//@|    open spec fn ah_fits(off: nat) -> bool { std_ah_off::<Self>(off) <= usize::MAX }
//@  sub <<fn align_hash(>>
//@  impl_arg
//@end

//@item @expanded props=C04,C06 name=i16::AlignHash <<impl AlignHash for i16 {>>
//@  replace <<crate::traits::std_align_hash::<Self>>> <<std_align_hash::<Self, _>>>
//@  body_prefix
//@|    open spec fn ah(off: nat) -> Seq<HItem> { std_ah::<Self>(off) }
//@|    open spec fn ah_off(off: nat) -> nat { std_ah_off::<Self>(off) }
//@|    open spec fn ah_fits(off: nat) -> bool { std_ah_off::<Self>(off) <= usize::MAX }
//@  sub <<fn align_hash(>>
//@  impl_arg
//@end

//@item @expanded props=C04,C06 name=i32::AlignHash <<impl AlignHash for i32 {>>
//@  replace <<crate::traits::std_align_hash::<Self>>> <<std_align_hash::<Self, _>>>
//@  body_prefix
//@|    open spec fn ah(off: nat) -> Seq<HItem> { std_ah::<Self>(off) }
//@|    open spec fn ah_off(off: nat) -> nat { std_ah_off::<Self>(off) }
//@|    open spec fn ah_fits(off: nat) -> bool { std_ah_off::<Self>(off) <= usize::MAX }
//@  sub <<fn align_hash(>>
//@  impl_arg
//@end

//@item @expanded props=C04,C06 name=i64::AlignHash <<impl AlignHash for i64 {>>
//@  replace <<crate::traits::std_align_hash::<Self>>> <<std_align_hash::<Self, _>>>
//@  body_prefix
//@|    open spec fn ah(off: nat) -> Seq<HItem> { std_ah::<Self>(off) }
//@|    open spec fn ah_off(off: nat) -> nat { std_ah_off::<Self>(off) }
//@|    open spec fn ah_fits(off: nat) -> bool { std_ah_off::<Self>(off) <= usize::MAX }
//@  sub <<fn align_hash(>>
//@  impl_arg
//@end

//@item @expanded props=C04,C06 name=i128::AlignHash <<impl AlignHash for i128 {>>
//@  replace <<crate::traits::std_align_hash::<Self>>> <<std_align_hash::<Self, _>>>
//@  body_prefix
//@|    open spec fn ah(off: nat) -> Seq<HItem> { std_ah::<Self>(off) }
//@|    open spec fn ah_off(off: nat) -> nat { std_ah_off::<Self>(off) }
//@|    open spec fn ah_fits(off: nat) -> bool { std_ah_off::<Self>(off) <= usize::MAX }
//@  sub <<fn align_hash(>>
//@  impl_arg
//@end

//@item @expanded props=C04,C06 name=isize::AlignHash <<impl AlignHash for isize {>>
//@  replace <<crate::traits::std_align_hash::<Self>>> <<std_align_hash::<Self, _>>>
//@  body_prefix
//@|    open spec fn ah(off: nat) -> Seq<HItem> { std_ah::<Self>(off) }
//@|    open spec fn ah_off(off: nat) -> nat { std_ah_off::<Self>(off) }
//@|    open spec fn ah_fits(off: nat) -> bool { std_ah_off::<Self>(off) <= usize::MAX }
//@  sub <<fn align_hash(>>
//@  impl_arg
//@end

//@item @expanded props=C04,C06 name=f32::AlignHash <<impl AlignHash for f32 {>>
//@  replace <<crate::traits::std_align_hash::<Self>>> <<std_align_hash::<Self, _>>>
//@  body_prefix
//@|    open spec fn ah(off: nat) -> Seq<HItem> { std_ah::<Self>(off) }
//@|    open spec fn ah_off(off: nat) -> nat { std_ah_off::<Self>(off) }
//@|    open spec fn ah_fits(off: nat) -> bool { std_ah_off::<Self>(off) <= usize::MAX }
//@  sub <<fn align_hash(>>
//@  impl_arg
//@end

//@item @expanded props=C04,C06 name=f64::AlignHash <<impl AlignHash for f64 {>>
//@  replace <<crate::traits::std_align_hash::<Self>>> <<std_align_hash::<Self, _>>>
//@  body_prefix
//@|    open spec fn ah(off: nat) -> Seq<HItem> { std_ah::<Self>(off) }
//@|    open spec fn ah_off(off: nat) -> nat { std_ah_off::<Self>(off) }
//@|    open spec fn ah_fits(off: nat) -> bool { std_ah_off::<Self>(off) <= usize::MAX }
//@  sub <<fn align_hash(>>
//@  impl_arg
//@end

//@item @expanded props=C04,C06 name=bool::AlignHash <<impl AlignHash for bool {>>
//@  replace <<crate::traits::std_align_hash::<Self>>> <<std_align_hash::<Self, _>>>
//@  body_prefix
//@|    open spec fn ah(off: nat) -> Seq<HItem> { std_ah::<Self>(off) }
//@|    open spec fn ah_off(off: nat) -> nat { std_ah_off::<Self>(off) }
//@|    open spec fn ah_fits(off: nat) -> bool { std_ah_off::<Self>(off) <= usize::MAX }
//@  sub <<fn align_hash(>>
//@  impl_arg
//@end

//@item @expanded props=C04,C06 name=char::AlignHash <<impl AlignHash for char {>>
//@  replace <<crate::traits::std_align_hash::<Self>>> <<std_align_hash::<Self, _>>>
//@  body_prefix
//@|    open spec fn ah(off: nat) -> Seq<HItem> { std_ah::<Self>(off) }
//@|    open spec fn ah_off(off: nat) -> nat { std_ah_off::<Self>(off) }
//@|    open spec fn ah_fits(off: nat) -> bool { std_ah_off::<Self>(off) <= usize::MAX }
//@  sub <<fn align_hash(>>
//@  impl_arg
//@end

//@item @expanded props=C04,C06 name=()::AlignHash <<impl AlignHash for () {>>
//@  replace <<crate::traits::std_align_hash::<Self>>> <<std_align_hash::<Self, _>>>
//@  body_prefix
//@|    open spec fn ah(off: nat) -> Seq<HItem> { std_ah::<Self>(off) }
//@|    open spec fn ah_off(off: nat) -> nat { std_ah_off::<Self>(off) }
//@|    open spec fn ah_fits(off: nat) -> bool { std_ah_off::<Self>(off) <= usize::MAX }
//@  sub <<fn align_hash(>>
//@  impl_arg
//@end

//@item @expanded props=C04,C06 name=NonZeroU8::AlignHash <<impl AlignHash for NonZeroU8 {>>
//@  replace <<crate::traits::std_align_hash::<Self>>> <<std_align_hash::<Self, _>>>
//@  body_prefix
//@|    open spec fn ah(off: nat) -> Seq<HItem> { std_ah::<Self>(off) }
//@|    open spec fn ah_off(off: nat) -> nat { std_ah_off::<Self>(off) }
//@|    open spec fn ah_fits(off: nat) -> bool { std_ah_off::<Self>(off) <= usize::MAX }
//@  sub <<fn align_hash(>>
//@  impl_arg
//@end

//@item @expanded props=C04,C06 name=NonZeroU64::AlignHash <<impl AlignHash for NonZeroU64 {>>
//@  replace <<crate::traits::std_align_hash::<Self>>> <<std_align_hash::<Self, _>>>
//@  body_prefix
//@|    open spec fn ah(off: nat) -> Seq<HItem> { std_ah::<Self>(off) }
//@|    open spec fn ah_off(off: nat) -> nat { std_ah_off::<Self>(off) }
//@|    open spec fn ah_fits(off: nat) -> bool { std_ah_off::<Self>(off) <= usize::MAX }
//@  sub <<fn align_hash(>>
//@  impl_arg
//@end

//@item @expanded props=C04,C06 name=NonZeroI128::AlignHash <<impl AlignHash for NonZeroI128 {>>
//@  replace <<crate::traits::std_align_hash::<Self>>> <<std_align_hash::<Self, _>>>
//@  body_prefix
//@|    open spec fn ah(off: nat) -> Seq<HItem> { std_ah::<Self>(off) }
//@|    open spec fn ah_off(off: nat) -> nat { std_ah_off::<Self>(off) }
//@|    open spec fn ah_fits(off: nat) -> bool { std_ah_off::<Self>(off) <= usize::MAX }
//@  sub <<fn align_hash(>>
//@  impl_arg
//@end

//@item @expanded props=C04,C06 name=NonZeroUsize::AlignHash <<impl AlignHash for NonZeroUsize {>>
//@  replace <<crate::traits::std_align_hash::<Self>>> <<std_align_hash::<Self, _>>>
//@  body_prefix
//@|    open spec fn ah(off: nat) -> Seq<HItem> { std_ah::<Self>(off) }
//@|    open spec fn ah_off(off: nat) -> nat { std_ah_off::<Self>(off) }
//@|    open spec fn ah_fits(off: nat) -> bool { std_ah_off::<Self>(off) <= usize::MAX }
//@  sub <<fn align_hash(>>
//@  impl_arg
//@end

//@item epserde/src/impls/prim.rs props=C04,C06 name=Option::AlignHash <<impl<T: AlignHash> AlignHash for Option<T> {>>
//@  body_prefix
//@|    open spec fn ah(off: nat) -> Seq<HItem> { T::ah(0) }
//@|    open spec fn ah_off(off: nat) -> nat { off }
//@|    open spec fn ah_fits(off: nat) -> bool { T::ah_fits(0) }
//@  sub <<fn align_hash(>>
//@  impl_arg
//@end

//@item epserde/src/impls/vec.rs props=C04,C06 name=Vec::AlignHash <<impl<T: AlignHash> AlignHash for Vec<T> {>>
//@  body_prefix
//@|    open spec fn ah(off: nat) -> Seq<HItem> { T::ah(0) }
//@|    open spec fn ah_off(off: nat) -> nat { off }
//@|    open spec fn ah_fits(off: nat) -> bool { T::ah_fits(0) }
//@  sub <<fn align_hash(>>
//@  impl_arg
//@end

//@item epserde/src/impls/boxed_slice.rs props=C04,C06 name=BoxSlice::AlignHash <<impl<T: AlignHash> AlignHash for Box<[T]> {>>
//@  body_prefix
//@|    open spec fn ah(off: nat) -> Seq<HItem> { T::ah(0) }
//@|    open spec fn ah_off(off: nat) -> nat { off }
//@|    open spec fn ah_fits(off: nat) -> bool { T::ah_fits(0) }
//@  sub <<fn align_hash(>>
//@  impl_arg
//@end

//@item epserde/src/impls/string.rs props=C04,C06 name=String::AlignHash <<impl AlignHash for String {>>
//@  body_prefix
//@|    open spec fn ah(off: nat) -> Seq<HItem> { Seq::empty() }
//@|    open spec fn ah_off(off: nat) -> nat { off }
//@|    open spec fn ah_fits(off: nat) -> bool { true }
//@  sub <<fn align_hash(>>
//@  impl_arg
//@end

//@item epserde/src/impls/string.rs props=C04,C06 name=BoxStr::AlignHash <<impl AlignHash for Box<str> {>>
//@  body_prefix
//@|    open spec fn ah(off: nat) -> Seq<HItem> { Seq::empty() }
//@|    open spec fn ah_off(off: nat) -> nat { off }
//@|    open spec fn ah_fits(off: nat) -> bool { true }
//@  sub <<fn align_hash(>>
//@  impl_arg
//@end

//@item epserde/src/impls/prim.rs props=C04,C06 name=PhantomData::AlignHash <<impl<T: ?Sized> AlignHash for PhantomData<T> {>>
//@  replace <<PhantomData>> <<core::marker::PhantomData>>
//@  body_prefix
//@|    open spec fn ah(off: nat) -> Seq<HItem> { Seq::empty() }
//@|    open spec fn ah_off(off: nat) -> nat { off }
//@|    open spec fn ah_fits(off: nat) -> bool { true }
//@  sub <<fn align_hash(>>
//@  impl_arg
//@end

//@item epserde/src/impls/stdlib.rs props=C04,C06 name=Bound::AlignHash <<impl<T> AlignHash for core::ops::Bound<T> {>>
//@  body_prefix
//@|    open spec fn ah(off: nat) -> Seq<HItem> { Seq::empty() }
//@|    open spec fn ah_off(off: nat) -> nat { off }
//@|    open spec fn ah_fits(off: nat) -> bool { true }
//@  sub <<fn align_hash(>>
//@  impl_arg
//@end

//@item epserde/src/impls/stdlib.rs props=C04,C06 name=RangeFull::AlignHash <<impl AlignHash for core::ops::RangeFull {>>
//@  body_prefix
//@|    open spec fn ah(off: nat) -> Seq<HItem> { Seq::empty() }
//@|    open spec fn ah_off(off: nat) -> nat { off }
//@|    open spec fn ah_fits(off: nat) -> bool { true }
//@  sub <<fn align_hash(>>
//@  impl_arg
//@end

//@item epserde/src/impls/stdlib.rs props=C04,C06 name=ControlFlow::AlignHash <<impl<B: AlignHash, C: AlignHash> AlignHash for core::ops::ControlFlow<B, C> {>>
//@  body_prefix
//@|    open spec fn ah(off: nat) -> Seq<HItem> { B::ah(0) + C::ah(0) }
//@|    open spec fn ah_off(off: nat) -> nat { off }
//@|    open spec fn ah_fits(off: nat) -> bool { B::ah_fits(0) && C::ah_fits(0) }
//@  sub <<fn align_hash(>>
//@  impl_arg
//@end

//@item epserde/src/impls/slice.rs props=C04,C16 name=SliceRef::AlignHash <<impl<T: AlignHash> AlignHash for &[T] {>>
//@  body_prefix
//@|    open spec fn ah(off: nat) -> Seq<HItem> { Vec::<T>::ah(off) }
//@|    open spec fn ah_off(off: nat) -> nat { Vec::<T>::ah_off(off) }
//@|    open spec fn ah_fits(off: nat) -> bool { Vec::<T>::ah_fits(off) }
//@  sub <<fn align_hash(>>
//@  impl_arg
//@end


// ---- SerIter (impls/iter.rs), C16: the wrapper feeds the recipes of the vector type ----------
// The struct holds a `RefCell` around a generic iterator: it is extracted as an opaque
// type (external_body); its hash implementations never touch the field.
//@item epserde/src/impls/iter.rs name=SerIter optional <<pub struct SerIter<'a, T: 'a, I: ExactSizeIterator<Item = &'a T>>(RefCell<I>);>>
//@  attr_before #[verifier::external_body] #[verifier::reject_recursive_types(T)] #[verifier::reject_recursive_types(I)]
//@  replace <<RefCell>> <<core::cell::RefCell>>
//@end

//@item epserde/src/impls/iter.rs props=C04,C16 name=SerIter::TypeHash optional back=impl <<TypeHash for SerIter<'a, T, I>>>
//@  body_prefix
//@|    open spec fn th() -> Seq<HItem> { Vec::<T>::th() }
//@  sub <<fn type_hash(>>
//@  impl_arg
//@end

//@item epserde/src/impls/iter.rs props=C04,C16 name=SerIter::AlignHash optional back=impl <<AlignHash for SerIter<'a, T, I>>>
//@  body_prefix
//@|    open spec fn ah(off: nat) -> Seq<HItem> { Vec::<T>::ah(off) }
//@|    open spec fn ah_off(off: nat) -> nat { Vec::<T>::ah_off(off) }
//@|    open spec fn ah_fits(off: nat) -> bool { Vec::<T>::ah_fits(off) }
//@  sub <<fn align_hash(>>
//@  impl_arg
//@end

//@item @expanded props=C04,C06 name=tuple2::AlignHash optional <<impl<T: @@> AlignHash for (T, T) {>>
//@  body_prefix
//@|    open spec fn ah(off: nat) -> Seq<HItem> { T::ah(off) + T::ah(T::ah_off(off)) }
//@|    open spec fn ah_off(off: nat) -> nat { T::ah_off(T::ah_off(off)) }
//@|    open spec fn ah_fits(off: nat) -> bool { T::ah_fits(off) && T::ah_fits(T::ah_off(off)) }
//@  sub <<fn align_hash(>>
//@  impl_arg
//@end

//@item @expanded props=C04,C06 name=tuple1::AlignHash optional <<impl<T: @@> AlignHash for (T,) {>>
//@  body_prefix
//@|    open spec fn ah(off: nat) -> Seq<HItem> { T::ah(off) }
//@|    open spec fn ah_off(off: nat) -> nat { T::ah_off(off) }
//@|    open spec fn ah_fits(off: nat) -> bool { T::ah_fits(off) }
//@  sub <<fn align_hash(>>
//@  impl_arg
//@end


//@item @expanded props=C04,C06 name=Range::TypeHash <<impl<Idx: ZeroCopy + TypeHash> TypeHash for core::ops::Range<Idx> {>>
//@  body_prefix
//@|    open spec fn th() -> Seq<HItem> { seq![HItem::Str("core :: ops :: Range"@)] + Idx::th() }
//@  sub <<fn type_hash(>>
//@  impl_arg
//@end

//@item @expanded props=C04,C06 name=RangeTo::TypeHash <<impl<Idx: ZeroCopy + TypeHash> TypeHash for core::ops::RangeTo<Idx> {>>
//@  body_prefix
//@|    open spec fn th() -> Seq<HItem> { seq![HItem::Str("core :: ops :: RangeTo"@)] + Idx::th() }
//@  sub <<fn type_hash(>>
//@  impl_arg
//@end

//@item @expanded props=C04,C06 name=Range::AlignHash <<impl<Idx: ZeroCopy + AlignHash> AlignHash for core::ops::Range<Idx> {>>
//@  replace <<crate::traits::std_align_hash::<Idx>>> <<std_align_hash::<Idx, _>>>
//@  body_prefix
//@|    /// two index fields laid out one after the other
//@|    open spec fn ah(off: nat) -> Seq<HItem> { std_ah::<Idx>(off) + std_ah::<Idx>(std_ah_off::<Idx>(off)) }
//@|    open spec fn ah_off(off: nat) -> nat { std_ah_off::<Idx>(std_ah_off::<Idx>(off)) }
//@|    open spec fn ah_fits(off: nat) -> bool { std_ah_off::<Idx>(std_ah_off::<Idx>(off)) <= usize::MAX && std_ah_off::<Idx>(off) <= usize::MAX }
//@  sub <<fn align_hash(>>
//@  impl_arg
//@end

//@item @expanded props=C04,C06 name=tuple3::AlignHash optional <<impl<T: @@> AlignHash for (T, T, T) {>>
//@  body_prefix
//@|    open spec fn ah(off: nat) -> Seq<HItem> { T::ah(off) + T::ah(T::ah_off(off)) + T::ah(T::ah_off(T::ah_off(off))) }
//@|    open spec fn ah_off(off: nat) -> nat { T::ah_off(T::ah_off(T::ah_off(off))) }
//@|    open spec fn ah_fits(off: nat) -> bool { T::ah_fits(off) && T::ah_fits(T::ah_off(off)) && T::ah_fits(T::ah_off(T::ah_off(off))) }
//@  sub <<fn align_hash(>>
//@  impl_arg
//@end

//@item @expanded props=C04,C06 name=tuple4::AlignHash optional <<impl<T: @@> AlignHash for (T, T, T, T) {>>
//@  body_prefix
//@|    open spec fn ah(off: nat) -> Seq<HItem> { T::ah(off) + T::ah(T::ah_off(off)) + T::ah(T::ah_off(T::ah_off(off))) + T::ah(T::ah_off(T::ah_off(T::ah_off(off)))) }
//@|    open spec fn ah_off(off: nat) -> nat { T::ah_off(T::ah_off(T::ah_off(T::ah_off(off)))) }
//@|    open spec fn ah_fits(off: nat) -> bool { T::ah_fits(off) && T::ah_fits(T::ah_off(off)) && T::ah_fits(T::ah_off(T::ah_off(off))) && T::ah_fits(T::ah_off(T::ah_off(T::ah_off(off)))) }
//@  sub <<fn align_hash(>>
//@  impl_arg
//@end

//@item @expanded props=C04,C06 name=tuple6::AlignHash optional <<impl<T: @@> AlignHash for (T, T, T, T, T, T) {>>
//@  body_prefix
//@|    open spec fn ah(off: nat) -> Seq<HItem> { T::ah(off) + T::ah(T::ah_off(off)) + T::ah(T::ah_off(T::ah_off(off))) + T::ah(T::ah_off(T::ah_off(T::ah_off(off)))) + T::ah(T::ah_off(T::ah_off(T::ah_off(T::ah_off(off))))) + T::ah(T::ah_off(T::ah_off(T::ah_off(T::ah_off(T::ah_off(off)))))) }
//@|    open spec fn ah_off(off: nat) -> nat { T::ah_off(T::ah_off(T::ah_off(T::ah_off(T::ah_off(T::ah_off(off)))))) }
//@|    open spec fn ah_fits(off: nat) -> bool { T::ah_fits(off) && T::ah_fits(T::ah_off(off)) && T::ah_fits(T::ah_off(T::ah_off(off))) && T::ah_fits(T::ah_off(T::ah_off(T::ah_off(off)))) && T::ah_fits(T::ah_off(T::ah_off(T::ah_off(T::ah_off(off))))) && T::ah_fits(T::ah_off(T::ah_off(T::ah_off(T::ah_off(T::ah_off(off)))))) }
//@  sub <<fn align_hash(>>
//@  impl_arg
//@end

// ---- arrays and tuples -----------------------------------------------------------

// tuple MaxSizeOf impls use the generic std::cmp::max, for which no precise
// specification can be attached: they are covered by the Kani lemma units_builtin.

//@item epserde/src/impls/array.rs props=C04,C06 name=array::AlignHash <<impl<T: AlignHash, const N: usize> AlignHash for [T; N] {>>
//@  body_prefix
//@|    /// the element once, then the offset skips the remaining N-1 elements
//@|    open spec fn ah(off: nat) -> Seq<HItem> { if N == 0 { Seq::empty() } else { T::ah(off) } }
//@|    open spec fn ah_off(off: nat) -> nat { if N == 0 { off } else { (T::ah_off(off) + (N - 1) * vstd::layout::size_of::<T>()) as nat } }
//@|    open spec fn ah_fits(off: nat) -> bool { N == 0 || (T::ah_fits(off) && (N - 1) * vstd::layout::size_of::<T>() <= usize::MAX && T::ah_off(off) + (N - 1) * vstd::layout::size_of::<T>() <= usize::MAX) }
//@  sub <<fn align_hash(>>
//@  impl_arg
//@end

//@item epserde/src/impls/array.rs props=C07 name=array::MaxSizeOf <<impl<T: MaxSizeOf, const N: usize> MaxSizeOf for [T; N] {>>
//@  body_prefix
//@|    open spec fn unit() -> nat { T::unit() }
//@  sub <<fn max_size_of() -> usize {>>
//@  ret r
//@end

//@item epserde/src/impls/prim.rs props=C07 name=PhantomData::MaxSizeOf <<impl<T: ?Sized> MaxSizeOf for PhantomData<T> {>>
//@  replace <<PhantomData>> <<core::marker::PhantomData>>
//@  body_prefix
//@|    open spec fn unit() -> nat { 1 }
//@  sub <<fn max_size_of() -> usize {>>
//@  ret r
//@end

//@item epserde/src/impls/stdlib.rs props=C07 name=RangeFull::MaxSizeOf <<impl MaxSizeOf for core::ops::RangeFull {>>
//@  body_prefix
//@|    open spec fn unit() -> nat { 1 }
//@  sub <<fn max_size_of() -> usize {>>
//@  ret r
//@end

// =========================================================================
// C04 at the level of recipes: constructor feeds are pairwise distinct and
// injective in their arguments (xxh3 assumed collision-free on feeds).
// =========================================================================

pub open spec fn s_(x: Seq<char>) -> Seq<HItem> { seq![HItem::Str(x)] }

/// a feed that starts with a constructor name determines the name and the rest
proof fn lemma_head_injective(a: Seq<char>, ra: Seq<HItem>, b: Seq<char>, rb: Seq<HItem>)
    requires s_(a) + ra == s_(b) + rb,
    ensures a == b, ra =~= rb,
{
    assert((s_(a) + ra)[0] == HItem::Str(a));
    assert((s_(b) + rb)[0] == HItem::Str(b));
    assert forall|i: int| 0 <= i < ra.len() implies ra[i] == rb[i] by {
        assert((s_(a) + ra)[i + 1] == ra[i]);
        assert((s_(b) + rb)[i + 1] == rb[i]);
    }
    assert(ra.len() == rb.len()) by {
        assert((s_(a) + ra).len() == 1 + ra.len());
        assert((s_(b) + rb).len() == 1 + rb.len());
    }
}

/// sequence kind, sum kind: different constructors never share a type hash
proof fn lemma_constructors_distinct<T: TypeHash, U: TypeHash>()
    ensures
        Vec::<T>::th() != <Box<[U]>>::th(),
        Vec::<T>::th() != Option::<U>::th(),
        Option::<T>::th() != core::ops::Bound::<U>::th(),
        <[T; 2]>::th() != Vec::<U>::th(),
        <(T,)>::th() != <[U; 1]>::th(),
        String::th() != <Box<str>>::th(),
        String::th() != Vec::<u8>::th(),
{
    reveal_strlit("Vec"); reveal_strlit("Box<[]>"); reveal_strlit("Option"); reveal_strlit("core::ops::Bound");
    reveal_strlit("[]"); reveal_strlit("()"); reveal_strlit("String"); reveal_strlit("Box<str>");
    assert(Vec::<T>::th()[0] == HItem::Str("Vec"@));
    assert(<Box<[U]>>::th()[0] == HItem::Str("Box<[]>"@));
    assert(Option::<U>::th()[0] == HItem::Str("Option"@));
    assert(Option::<T>::th()[0] == HItem::Str("Option"@));
    assert(core::ops::Bound::<U>::th()[0] == HItem::Str("core::ops::Bound"@));
    assert(<[T; 2]>::th()[0] == HItem::Str("[]"@));
    assert(<[U; 1]>::th()[0] == HItem::Str("[]"@));
    assert(<(T,)>::th()[0] == HItem::Str("()"@));
    assert(Vec::<U>::th()[0] == HItem::Str("Vec"@));
    assert(String::th()[0] == HItem::Str("String"@));
    assert(<Box<str>>::th()[0] == HItem::Str("Box<str>"@));
    assert(Vec::<u8>::th()[0] == HItem::Str("Vec"@));
    assert("Vec"@.len() == 3); assert("Box<[]>"@.len() == 7); assert("Option"@.len() == 6);
    assert("core::ops::Bound"@.len() == 16); assert("[]"@.len() == 2); assert("()"@.len() == 2);
    assert("String"@.len() == 6); assert("Box<str>"@.len() == 8);
    assert("[]"@[0] == '['); assert("()"@[0] == '(');
    assert("Option"@[0] == 'O'); assert("String"@[0] == 'S');
}

/// generic arguments, array length: the same constructor is injective
proof fn lemma_constructors_injective<T: TypeHash, U: TypeHash>()
    ensures
        Vec::<T>::th() == Vec::<U>::th() ==> T::th() =~= U::th(),
        Option::<T>::th() == Option::<U>::th() ==> T::th() =~= U::th(),
        <[T; 2]>::th() != <[T; 3]>::th(),
{
    if Vec::<T>::th() == Vec::<U>::th() {
        lemma_head_injective("Vec"@, T::th(), "Vec"@, U::th());
    }
    if Option::<T>::th() == Option::<U>::th() {
        lemma_head_injective("Option"@, T::th(), "Option"@, U::th());
    }
    assert(<[T; 2]>::th()[1] == HItem::Usize(2));
    assert(<[T; 3]>::th()[1] == HItem::Usize(3));
}


// =========================================================================
// derive(Epserde) output for sample definitions (rustc's expansion of the
// harness crate): names, field names, field order and field types are all in
// the feed (C04), for all type parameters.
// =========================================================================

//@item @types name=G2 <<pub struct G2<T, U> {>>
//@end
//@item @types name=Z8 <<pub struct Z8 {>>
//@end
//@item @types name=E1 <<pub enum E1 {>>
//@end

//@item @derive props=C04,C05,C06 name=G2::TypeHash <<impl<T, U> epserde::traits::TypeHash for G2<T, U> where>>
//@  replace <<epserde::traits::>> <<>>
//@  body_prefix
//@|    /// copy kind, type name, field names in order, field types in order
//@|    open spec fn th() -> Seq<HItem> {
//@|        seq![HItem::Str("DeepCopy"@), HItem::Str("G2"@), HItem::Str("a"@), HItem::Str("b"@), HItem::Str("c"@)]
//@|            + T::th() + U::th() + u8::th()
//@|    }
//@  sub <<fn type_hash(>>
//@  impl_arg
//@end

//@item @derive props=C04,C05,C06 name=G2::AlignHash <<impl<T, U> epserde::traits::AlignHash for G2<T, U> where>>
//@  replace <<epserde::traits::>> <<>>
//@  body_prefix
//@|    /// a deep type restarts every field at offset 0
//@|    open spec fn ah(off: nat) -> Seq<HItem> { T::ah(0) + U::ah(0) + u8::ah(0) }
//@|    open spec fn ah_off(off: nat) -> nat { off }
//@|    open spec fn ah_fits(off: nat) -> bool { T::ah_fits(0) && U::ah_fits(0) && u8::ah_fits(0) }
//@  sub <<fn align_hash(>>
//@  impl_arg
//@end

//@item @derive props=C04,C05,C06 name=Z8::TypeHash <<impl epserde::traits::TypeHash for Z8<> {>>
//@  replace <<epserde::traits::>> <<>>
//@  body_prefix
//@|    open spec fn th() -> Seq<HItem> {
//@|        seq![HItem::Str("ZeroCopy"@), HItem::Str("Z8"@), HItem::Str("a"@), HItem::Str("b"@), HItem::Str("c"@)]
//@|            + u32::th() + u16::th() + u16::th()
//@|    }
//@  sub <<fn type_hash(>>
//@  impl_arg
//@end

//@item @derive props=C04,C05,C06 name=Z8::AlignHash <<impl epserde::traits::AlignHash for Z8<> {>>
//@  replace <<epserde::traits::>> <<>>
//@  body_prefix
//@|    /// size, representation attributes, then the fields at running offsets
//@|    open spec fn ah(off: nat) -> Seq<HItem> {
//@|        seq![HItem::Usize(vstd::layout::size_of::<Z8>()), HItem::Str("C"@)]
//@|            + u32::ah(off) + u16::ah(u32::ah_off(off)) + u16::ah(u16::ah_off(u32::ah_off(off)))
//@|    }
//@|    open spec fn ah_off(off: nat) -> nat { u16::ah_off(u16::ah_off(u32::ah_off(off))) }
//@|    open spec fn ah_fits(off: nat) -> bool {
//@|        u32::ah_fits(off) && u16::ah_fits(u32::ah_off(off)) && u16::ah_fits(u16::ah_off(u32::ah_off(off)))
//@|    }
//@  sub <<fn align_hash(>>
//@  impl_arg
//@end

//@item @derive props=C04,C05,C06 name=E1::TypeHash <<impl epserde::traits::TypeHash for E1<> {>>
//@  replace <<epserde::traits::>> <<>>
//@  body_prefix
//@|    /// variant names in order, each followed by its field names and types
//@|    open spec fn th() -> Seq<HItem> {
//@|        seq![HItem::Str("DeepCopy"@), HItem::Str("E1"@), HItem::Str("A"@), HItem::Str("B"@), HItem::Str("0"@)]
//@|            + u16::th() + seq![HItem::Str("C"@), HItem::Str("x"@)] + u8::th() + seq![HItem::Str("y"@)] + u32::th()
//@|            + seq![HItem::Str("D"@)]
//@|    }
//@  sub <<fn type_hash(>>
//@  impl_arg
//@end

//@item @types name=ZC2 <<pub struct ZC2<const A: usize, const B: usize>;>>
//@end

//@item @derive props=C04,C05,C06 name=ZC2::TypeHash <<impl<const A : usize, const B : usize> epserde::traits::TypeHash for ZC2<A, B> {>>
//@  replace <<epserde::traits::>> <<>>
//@  body_prefix
//@|    /// copy kind, the values of all const parameters in order, then their
//@|    /// names in order, then the type name (contracts/FORMAT.md, "derived types")
//@|    open spec fn th() -> Seq<HItem> {
//@|        seq![HItem::Str("ZeroCopy"@), HItem::Usize(A as nat), HItem::Usize(B as nat),
//@|             HItem::Str("A"@), HItem::Str("B"@), HItem::Str("ZC2"@)]
//@|    }
//@  sub <<fn type_hash(>>
//@  impl_arg
//@end

} // verus!
fn main() {}
