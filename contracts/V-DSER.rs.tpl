// V-DSER: the *serialization* half of derive(Epserde) output for the sample definitions of
// kani-harness/src/types.rs (rustc -Zunpretty=expanded of that crate), checked
// against the SerializeInner contract of V-SER, with round-trip lemmas against the
// parse functions of V-DERIVE (whose text precedes the marker and is counted there).
// Generated file: the template is /verif/contracts/V-DSER.rs.tpl.
#![allow(unused_imports, unused_variables, dead_code)]
use vstd::prelude::*;
// the imports of the source files the items come from (path spelling is not semantics)
use core::marker::PhantomData;
use core::ops::{Bound, ControlFlow};
// path spellings of the source files (`deser::Error`, `ser::Result`, ...) resolve inside the
// unit as they do in the crate: a change that merely writes a path differently stays decidable
mod deser { pub use super::{Error, Result}; }
mod ser { pub use super::SError as Error; pub use super::SResult as Result; }
verus! {

global size_of usize == 8;

//@include inc/pad_defs.rs

// the padding function under its V-PAD contract (proved there, assumed here)
#[verifier::external_body]
pub fn pad_align_to(value: usize, align_to: usize) -> (r: usize)
    requires is_pow2(align_to as int),
    ensures r < align_to,
            r as int == pad_spec(value as int, align_to as int),
{ unimplemented!() }

pub assume_specification<T>[ <[T]>::as_ptr ](s: &[T]) -> (r: *const T);


//@include inc/deser_base.tpl

//@include inc/derive_deser.tpl

// @@V-DSER: obligations counted from here (the text above is the V-DERIVE unit, counted there)

//@include inc/ser_prelude.rs

//@include inc/ser_copy.tpl

//@include inc/ser_base.tpl

//@include inc/ser_spec.tpl

pub uninterp spec fn u16_bytes(v: u16) -> Seq<u8>;
pub uninterp spec fn i32_bytes(v: i32) -> Seq<u8>;
#[verifier::external_body]
pub proof fn axiom_ne_bytes2()
    ensures
        forall|v: u16| #[trigger] u16_bytes(v).len() == 2 && u16_of(u16_bytes(v)) == v,
        forall|v: i32| #[trigger] i32_bytes(v).len() == 4 && i32_of(i32_bytes(v)) == v,
{
}
assumed_prim_ser!(u16, |v: u16| u16_bytes(v));
assumed_prim_ser!(i32, |v: i32| i32_bytes(v));
impl RoundTrip for u16 {
    proof fn lemma_rt(&self, pos: nat, rest: Seq<u8>) {
        axiom_ne_bytes2();
        assert((u16_bytes(*self) + rest).take(2) =~= u16_bytes(*self));
    }
}
impl RoundTrip for i32 {
    proof fn lemma_rt(&self, pos: nat, rest: Seq<u8>) {
        axiom_ne_bytes2();
        assert((i32_bytes(*self) + rest).take(4) =~= i32_bytes(*self));
    }
}

// Option<T> under its V-SER contract (proved there for all T, assumed here)
impl<T: SerializeInner> SerializeInner for Option<T> {
    type SerType = Self;
    const IS_ZERO_COPY: bool = false;
    const ZERO_COPY_MISMATCH: bool = false;
    open spec fn enc(&self, pos: nat) -> Seq<u8> {
        match self {
            None => seq![0u8],
            Some(v) => seq![1u8] + v.enc(pos + 1),
        }
    }
    #[verifier::external_body]
    fn _serialize_inner<W: WriteWithNames>(&self, backend: &mut W) -> (r: SResult<()>) { unimplemented!() }
}
impl<T: RoundTrip> RoundTrip for Option<T> {
    /// proved in V-SER for all T, assumed here
    #[verifier::external_body]
    proof fn lemma_rt(&self, pos: nat, rest: Seq<u8>) {}
}

/// three-way split used by the failure-path hints
pub proof fn lemma_err_parts3(s0: Seq<u8>, e1: Seq<u8>, e2: Seq<u8>, e3: Seq<u8>, s2: Seq<u8>)
    ensures
        is_prefix(s0, s2) && is_prefix(s2, s0 + e1) ==> is_prefix(s2, s0 + (e1 + e2 + e3)),
        is_prefix(s0 + e1, s2) && is_prefix(s2, s0 + e1 + e2) ==> is_prefix(s0, s2) && is_prefix(s2, s0 + (e1 + e2 + e3)),
        is_prefix(s0 + e1 + e2, s2) && is_prefix(s2, s0 + e1 + e2 + e3) ==> is_prefix(s0, s2) && is_prefix(s2, s0 + (e1 + e2 + e3)),
{
    assert(e1 + e2 + e3 =~= e1 + (e2 + e3));
    if is_prefix(s0, s2) && is_prefix(s2, s0 + e1) {
        lemma_err_first(s0, e1, e2 + e3, s2);
    }
    if is_prefix(s0 + e1, s2) && is_prefix(s2, s0 + e1 + e2) {
        lemma_err_second(s0, e1, e2, s2);
        lemma_err_first(s0, e1 + e2, e3, s2);
        assert(s0 + (e1 + e2) + e3 =~= s0 + (e1 + e2 + e3));
    }
    if is_prefix(s0 + e1 + e2, s2) && is_prefix(s2, s0 + e1 + e2 + e3) {
        assert(s0 + e1 + e2 =~= s0 + (e1 + e2));
        assert(s0 + e1 + e2 + e3 =~= s0 + (e1 + e2) + e3);
        lemma_err_second(s0, e1 + e2, e3, s2);
    }
}

//@item @derive props=C01,C05,C13,C15 name=E1::SerializeInner <<impl epserde::ser::SerializeInner for E1<> where>>
//@  replace <<epserde::ser::helpers::check_mismatch::<Self>();>> <<>>
//@  replace <<epserde::ser::Result>> <<SResult>>
//@  replace <<epserde::ser::>> <<>>
//@  replace <<backend.write(>> <<ww_write(backend, >>
//@  body_prefix
//@|    /// pointer-width variant index (declaration order), then the fields in order
//@|    open spec fn enc(&self, pos: nat) -> Seq<u8> {
//@|        match self {
//@|            E1::A => usize_bytes(0),
//@|            E1::B(v) => usize_bytes(1) + v.enc(pos + 8),
//@|            E1::C { x, y } => usize_bytes(2) + x.enc(pos + 8) + y.enc(pos + 8 + x.enc(pos + 8).len()),
//@|            E1::D => usize_bytes(3),
//@|        }
//@|    }
//@  sub <<fn _serialize_inner(&self,>>
//@  impl_arg
//@  ret r
//@  body_prefix
//@|            proof { axiom_ne_bytes(); }
//@end

//@requires E1::SerializeInner
impl RoundTrip for E1 {
    proof fn lemma_rt(&self, pos: nat, rest: Seq<u8>) {
        axiom_ne_bytes();
        let s = self.enc(pos) + rest;
        match self {
            E1::A => { assert(s.take(8) =~= usize_bytes(0)); },
            E1::B(v) => {
                assert(s.take(8) =~= usize_bytes(1));
                assert(s.skip(8) =~= v.enc(pos + 8) + rest);
                v.lemma_rt(pos + 8, rest);
            },
            E1::C { x, y } => {
                let e2 = x.enc(pos + 8);
                let e3 = y.enc(pos + 8 + e2.len());
                assert(s.take(8) =~= usize_bytes(2));
                assert(s.skip(8) =~= e2 + (e3 + rest));
                x.lemma_rt(pos + 8, e3 + rest);
                assert(s.skip(8).skip(e2.len() as int) =~= e3 + rest);
                y.lemma_rt(pos + 8 + e2.len(), rest);
            },
            E1::D => { assert(s.take(8) =~= usize_bytes(3)); },
        }
    }
}
//@endrequires

//@item @derive props=C01,C05,C13 name=DT::SerializeInner <<impl epserde::ser::SerializeInner for DT<> where>>
//@  replace <<epserde::ser::helpers::check_mismatch::<Self>();>> <<>>
//@  replace <<epserde::ser::Result>> <<SResult>>
//@  replace <<epserde::ser::>> <<>>
//@  replace <<backend.write(>> <<ww_write(backend, >>
//@  body_prefix
//@|    /// the fields in declaration order
//@|    open spec fn enc(&self, pos: nat) -> Seq<u8> {
//@|        self.0.enc(pos) + self.1.enc(pos + self.0.enc(pos).len())
//@|    }
//@  sub <<fn _serialize_inner(&self,>>
//@  impl_arg
//@  ret r
//@end

//@requires DT::SerializeInner
impl RoundTrip for DT {
    proof fn lemma_rt(&self, pos: nat, rest: Seq<u8>) {
        let e1 = self.0.enc(pos);
        let e2 = self.1.enc(pos + e1.len());
        let s = self.enc(pos) + rest;
        assert(s =~= e1 + (e2 + rest));
        self.0.lemma_rt(pos, e2 + rest);
        assert(s.skip(e1.len() as int) =~= e2 + rest);
        self.1.lemma_rt(pos + e1.len(), rest);
    }
}
//@endrequires

//@item @derive props=C01,C05,C13,C15 name=GE::SerializeInner <<impl<V> epserde::ser::SerializeInner for GE<V> where>>
//@  replace <<epserde::ser::helpers::check_mismatch::<Self>();>> <<>>
//@  replace <<epserde::ser::Result>> <<SResult>>
//@  replace <<epserde::ser::>> <<>>
//@  replace <<backend.write(>> <<ww_write(backend, >>
//@  body_prefix
//@|    open spec fn enc(&self, pos: nat) -> Seq<u8> {
//@|        match self {
//@|            GE::N => usize_bytes(0),
//@|            GE::S { a, b } => usize_bytes(1) + a.enc(pos + 8) + b.enc(pos + 8 + a.enc(pos + 8).len()),
//@|            GE::T(x, k) => usize_bytes(2) + x.enc(pos + 8) + k.enc(pos + 8 + x.enc(pos + 8).len()),
//@|        }
//@|    }
//@  sub <<fn _serialize_inner(&self,>>
//@  impl_arg
//@  ret r
//@  body_prefix
//@|            proof { axiom_ne_bytes(); }
//@end

//@requires GE::SerializeInner
impl<V: RoundTrip> RoundTrip for GE<V> {
    proof fn lemma_rt(&self, pos: nat, rest: Seq<u8>) {
        axiom_ne_bytes();
        let s = self.enc(pos) + rest;
        match self {
            GE::N => { assert(s.take(8) =~= usize_bytes(0)); },
            GE::S { a, b } => {
                let e2 = a.enc(pos + 8);
                let e3 = b.enc(pos + 8 + e2.len());
                assert(s.take(8) =~= usize_bytes(1));
                assert(s.skip(8) =~= e2 + (e3 + rest));
                a.lemma_rt(pos + 8, e3 + rest);
                assert(s.skip(8).skip(e2.len() as int) =~= e3 + rest);
                b.lemma_rt(pos + 8 + e2.len(), rest);
            },
            GE::T(x, k) => {
                let e2 = x.enc(pos + 8);
                let e3 = k.enc(pos + 8 + e2.len());
                assert(s.take(8) =~= usize_bytes(2));
                assert(s.skip(8) =~= e2 + (e3 + rest));
                x.lemma_rt(pos + 8, e3 + rest);
                assert(s.skip(8).skip(e2.len() as int) =~= e3 + rest);
                k.lemma_rt(pos + 8 + e2.len(), rest);
            },
        }
    }
}
//@endrequires

//@item @derive props=C01,C05,C13 name=G2::SerializeInner <<impl<T, U> epserde::ser::SerializeInner for G2<T, U> where>>
//@  replace <<epserde::ser::helpers::check_mismatch::<Self>();>> <<>>
//@  replace <<epserde::ser::Result>> <<SResult>>
//@  replace <<epserde::ser::>> <<>>
//@  replace <<backend.write(>> <<ww_write(backend, >>
//@  body_prefix
//@|    open spec fn enc(&self, pos: nat) -> Seq<u8> {
//@|        self.a.enc(pos) + self.b.enc(pos + self.a.enc(pos).len())
//@|            + self.c.enc(pos + self.a.enc(pos).len() + self.b.enc(pos + self.a.enc(pos).len()).len())
//@|    }
//@  sub <<fn _serialize_inner(&self,>>
//@  impl_arg
//@  ret r
//@end

//@requires G2::SerializeInner
impl<T: RoundTrip, U: RoundTrip> RoundTrip for G2<T, U> {
    proof fn lemma_rt(&self, pos: nat, rest: Seq<u8>) {
        let e1 = self.a.enc(pos);
        let e2 = self.b.enc(pos + e1.len());
        let e3 = self.c.enc(pos + e1.len() + e2.len());
        let s = self.enc(pos) + rest;
        assert(s =~= e1 + (e2 + (e3 + rest)));
        self.a.lemma_rt(pos, e2 + (e3 + rest));
        assert(s.skip(e1.len() as int) =~= e2 + (e3 + rest));
        self.b.lemma_rt(pos + e1.len(), e3 + rest);
        assert(s.skip(e1.len() as int).skip(e2.len() as int) =~= e3 + rest);
        self.c.lemma_rt(pos + e1.len() + e2.len(), rest);
    }
}
//@endrequires


// GM<T> (a field that merely mentions the parameter): relative to Vec<T> obeying the
// trait-level contracts, which V-SER / V-DESER prove for the Vec implementations
//@item @derive props=C01,C05,C13 name=GM::SerializeInner <<impl<T> epserde::ser::SerializeInner for GM<T> where>>
//@  replace <<epserde::ser::helpers::check_mismatch::<Self>();>> <<>>
//@  replace <<epserde::ser::Result>> <<SResult>>
//@  replace <<epserde::ser::>> <<>>
//@  replace <<backend.write(>> <<ww_write(backend, >>
//@  body_prefix
//@|    open spec fn enc(&self, pos: nat) -> Seq<u8> {
//@|        self.v.enc(pos) + self.n.enc(pos + self.v.enc(pos).len())
//@|    }
//@  sub <<fn _serialize_inner(&self,>>
//@  impl_arg
//@  ret r
//@  body_prefix
//@|        let ghost sink0 = backend.sink();
//@|        let ghost e1 = self.v.enc(backend.wpos());
//@|        let ghost e2 = self.n.enc(backend.wpos() + e1.len());
//@|        proof {
//@|            assert forall|s2: Seq<u8>| is_prefix(sink0, s2) && #[trigger] is_prefix(s2, sink0 + e1)
//@|                implies is_prefix(s2, sink0 + (e1 + e2)) by { lemma_err_first(sink0, e1, e2, s2); }
//@|            assert forall|s2: Seq<u8>| is_prefix(sink0 + e1, s2) && #[trigger] is_prefix(s2, sink0 + e1 + e2)
//@|                implies is_prefix(sink0, s2) && is_prefix(s2, sink0 + (e1 + e2)) by { lemma_err_second(sink0, e1, e2, s2); }
//@|            assert(sink0 + e1 + e2 =~= sink0 + (e1 + e2));
//@|        }
//@end

//@requires GM::SerializeInner
impl<T> RoundTrip for GM<T> where Vec<T>: RoundTrip {
    proof fn lemma_rt(&self, pos: nat, rest: Seq<u8>) {
        let e1 = self.v.enc(pos);
        let e2 = self.n.enc(pos + e1.len());
        let s = self.enc(pos) + rest;
        assert(s =~= e1 + (e2 + rest));
        self.v.lemma_rt(pos, e2 + rest);
        assert(s.skip(e1.len() as int) =~= e2 + rest);
        self.n.lemma_rt(pos + e1.len(), rest);
    }
}
//@endrequires

} // verus!
fn main() {}
