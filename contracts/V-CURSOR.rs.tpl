// V-CURSOR: utils/aligned_cursor.rs against the behaviour of std::io::Cursor<Vec<u8>>
// (C19), for all contents, positions, buffers and alignment types.
// Generated file: the template is /verif/contracts/V-CURSOR.rs.tpl.
//
// What is verified: every function of AlignedCursor as extracted on this run.
// What is assumed (Kani's cursor_* lemmas check it on A16/A64 within their bounds):
// the memory image of a Vec<T> (`bytes_of`), that `T::default()` of an alignment
// type is all-zero, the two `unsafe` views of the storage as bytes.
#![allow(unused_imports, unused_variables, dead_code)]
use vstd::prelude::*;
use vstd::std_specs::cmp::OrdSpec;
use core::slice;
use std::io::SeekFrom;
verus! {

global size_of usize == 8;

// ---- dependency stubs -------------------------------------------------------------

/// maligned::Alignment (sealed marker trait of the alignment types A2 .. A16384,
/// each a `#[repr(align(N))]` wrapper of `[u8; N]`): bounds only
pub trait Alignment: Sized + Clone + Default {}

#[verifier::external_type_specification]
#[verifier::external_body]
pub struct ExIoError(std::io::Error);

#[verifier::external_type_specification]
pub struct ExErrorKind(std::io::ErrorKind);

#[verifier::external_type_specification]
pub struct ExSeekFrom(std::io::SeekFrom);

/// the kind an io::Error was built with (ghost)
pub uninterp spec fn io_kind(e: std::io::Error) -> std::io::ErrorKind;

/// `std::io::Error::new(kind, msg)` (generic over `Into<Box<dyn Error>>`, outside
/// Verus' dialect): recorded replacement of the constructor path only
#[verifier::external_body]
pub fn assumed_io_error_new(kind: std::io::ErrorKind, msg: &str) -> (r: std::io::Error)
    ensures io_kind(r) == kind,
{ unimplemented!() }

pub assume_specification<T: Ord>[ std::cmp::min ](a: T, b: T) -> (r: T)
    ensures T::obeys_cmp_spec() ==> r == (if a.cmp_spec(&b) == core::cmp::Ordering::Greater { b } else { a });

pub assume_specification[ usize::div_ceil ](a: usize, b: usize) -> (r: usize)
    requires b > 0,
    ensures r as int == (a as int + b as int - 1) / (b as int),
        r as int * b as int >= a as int,
        (a > 0 ==> (r as int - 1) * (b as int) < (a as int)),
        (a == 0 ==> r == 0);

// ---- memory image of the storage (assumed; the part Kani checks) -------------------

pub open spec fn zeros(n: nat) -> Seq<u8> { Seq::new(n, |i: int| 0u8) }

/// the bytes of a sequence of T as laid out in a Vec<T>
pub uninterp spec fn bytes_of<T>(s: Seq<T>) -> Seq<u8>;
/// every byte of x is zero
pub uninterp spec fn zero_elem<T>(x: T) -> bool;

pub broadcast axiom fn axiom_bytes_len<T>(s: Seq<T>)
    ensures #[trigger] bytes_of(s).len() == s.len() * vstd::layout::size_of::<T>(),
        s.len() == 0 ==> bytes_of(s).len() == 0;

pub broadcast axiom fn axiom_bytes_concat<T>(a: Seq<T>, b: Seq<T>)
    ensures #[trigger] bytes_of(a + b) == bytes_of(a) + bytes_of(b);

pub broadcast axiom fn axiom_bytes_zero<T>(s: Seq<T>)
    requires forall|i: int| 0 <= i < s.len() ==> zero_elem(#[trigger] s[i]),
    ensures #[trigger] bytes_of(s) == zeros(s.len() * vstd::layout::size_of::<T>());

pub broadcast axiom fn axiom_clone_zero<T: Alignment>(a: T, b: T)
    requires zero_elem(a), #[trigger] cloned(a, b),
    ensures zero_elem(b);

/// `T::default()` of an alignment type (a zeroed byte array): recorded replacement
#[verifier::external_body]
pub fn assumed_default<T: Alignment>() -> (r: T)
    ensures zero_elem(r),
{ unimplemented!() }

/// `unsafe { slice::from_raw_parts_mut(vec.as_mut_ptr() as *mut u8, vec.len() * size_of::<T>()) }`:
/// the storage viewed as bytes, writes go through to the vector (recorded replacement)
#[verifier::external_body]
pub fn assumed_bytes_mut<T>(v: &mut Vec<T>) -> (r: &mut [u8])
    ensures r@ == bytes_of(old(v)@), bytes_of(final(v)@) == final(r)@, final(v)@.len() == old(v)@.len(),
{ unimplemented!() }

// ---- the behaviour of std::io::Cursor<Vec<u8>> (from the property statement) --------

/// contents after writing `b` at position `p` into contents `c`: the gap is zero-filled
pub open spec fn cursor_write(c: Seq<u8>, p: nat, b: Seq<u8>) -> Seq<u8> {
    Seq::new(if c.len() >= p + b.len() { c.len() } else { p + b.len() },
        |i: int| if p <= i < p + b.len() { b[i - p] } else if i < c.len() { c[i] } else { 0u8 })
}

/// number of bytes a read of a buffer of length n delivers
pub open spec fn cursor_read_n(clen: nat, p: nat, n: nat) -> nat {
    if p >= clen { 0 } else if n <= clen - p { n } else { (clen - p) as nat }
}

// ---- the cursor (verbatim from /repo) ------------------------------------------------

//@item epserde/src/utils/aligned_cursor.rs name=AlignedCursor <<pub struct AlignedCursor<T: Alignment = A16> {>>
//@  replace <<T: Alignment = A16>> <<T: Alignment>>
//@end

impl<T: Alignment> AlignedCursor<T> {
    /// the storage as bytes (ghost)
    pub closed spec fn storage(&self) -> Seq<u8> { bytes_of(self.vec@) }
    /// the valid data: the first `len` bytes of the storage (ghost)
    pub closed spec fn content(&self) -> Seq<u8> { bytes_of(self.vec@).take(self.len as int) }
    pub closed spec fn cpos(&self) -> nat { self.pos as nat }
    /// representation invariant: the data lies within the storage, the storage
    /// past the data is zero (what makes a later gap read as zeros)
    pub closed spec fn wf(&self) -> bool {
        self.len <= bytes_of(self.vec@).len()
        && (forall|i: int| self.len <= i < bytes_of(self.vec@).len() ==> #[trigger] bytes_of(self.vec@)[i] == 0u8)
    }
}

//@item epserde/src/utils/aligned_cursor.rs props=C19 name=AlignedCursor::inherent <<impl<T: Alignment> AlignedCursor<T> {>>
//@  sub <<pub fn new() -> Self {>>
//@  ret r
//@  spec
//@|        ensures r.wf(), r.content() =~= Seq::<u8>::empty(), r.cpos() == 0,
//@  body_prefix
//@|        broadcast use axiom_bytes_len;
//@  sub <<pub fn with_capacity(capacity: usize) -> Self {>>
//@  ret r
//@  spec
//@|        requires vstd::layout::size_of::<T>() > 0,
//@|        ensures r.wf(), r.content() =~= Seq::<u8>::empty(), r.cpos() == 0,
//@  body_prefix
//@|        broadcast use axiom_bytes_len;
//@  sub <<pub fn into_parts(self) -> (Vec<T>, usize) {>>
//@  ret r
//@  spec
//@|        ensures bytes_of(r.0@).take(r.1 as int) == self.content(),
//@  sub <<pub fn as_bytes(&mut self) -> &[u8] {>>
//@  ret r
//@  external_body
//@  spec
//@|        requires old(self).wf(),
//@|        ensures r@ == old(self).content(), *final(self) == *old(self),
//@  sub <<pub fn as_bytes_mut(&mut self) -> &mut [u8] {>>
//@  ret r
//@  external_body
//@  spec
//@|        requires old(self).wf(),
//@|        ensures r@ == old(self).content(), final(self).wf(), final(self).content() == final(r)@,
//@|            final(self).cpos() == old(self).cpos(),
//@  sub <<pub fn len(&self) -> usize {>>
//@  ret r
//@  spec
//@|        requires self.wf(),
//@|        ensures r == self.content().len(),
//@  body_prefix
//@|        broadcast use axiom_bytes_len;
//@  sub <<pub fn is_empty(&self) -> bool {>>
//@  ret r
//@  spec
//@|        requires self.wf(),
//@|        ensures r == (self.content().len() == 0),
//@  body_prefix
//@|        broadcast use axiom_bytes_len;
//@  sub <<pub fn position(&self) -> usize {>>
//@  ret r
//@  spec
//@|        ensures r == self.cpos(),
//@  sub <<pub fn set_position(&mut self, pos: usize) {>>
//@  spec
//@|        requires old(self).wf(),
//@|        ensures final(self).wf(), final(self).content() == old(self).content(), final(self).cpos() == pos,
//@end

// `impl Read / Write / Seek for AlignedCursor<T>`: the methods are extracted as
// inherent methods (the trait name leaves the impl header - recorded replacement):
// std's traits carry no contract a precondition could be attached to.
// `seek` is NOT in this unit: its second `match` has a guarded arm that assigns
// `self.pos` and flows to the join, and this Verus loses the whole of `*self` there
// (minimal reproduction in DESIGN.md section 2); the complete Kani lemma
// cursor_seek_a16 (all of u64 x i64) decides it.

//@item epserde/src/utils/aligned_cursor.rs props=C19 name=AlignedCursor::Read <<impl<T: Alignment> Read for AlignedCursor<T> {>>
//@  replace <<Read for>> <<>>
//@  sub <<fn read(&mut self, buf: &mut [u8]) -> std::io::Result<usize> {>>
//@  ret r
//@  spec
//@|        requires old(self).wf(),
//@|        ensures final(self).wf(), final(self).content() == old(self).content(),
//@|            final(buf)@.len() == old(buf)@.len(),
//@|            ({
//@|                let c = old(self).content();
//@|                let p = old(self).cpos();
//@|                let n = cursor_read_n(c.len(), p, old(buf)@.len());
//@|                // like std's cursor: the bytes at the position, as many as fit and exist;
//@|                // the rest of the buffer untouched; the position advances by what was delivered
//@|                r is Ok && r->Ok_0 == n
//@|                    && final(buf)@ =~= (if n == 0 { old(buf)@ } else { c.subrange(p as int, (p + n) as int) + old(buf)@.skip(n as int) })
//@|                    && final(self).cpos() == p + n
//@|            }),
//@  body_prefix
//@|        broadcast use axiom_bytes_len;
//@end

//@item epserde/src/utils/aligned_cursor.rs props=C19 name=AlignedCursor::Write <<impl<T: Alignment> Write for AlignedCursor<T> {>>
//@  replace <<Write for>> <<>>
//@  replace <<std::io::Error::new>> <<assumed_io_error_new>>
//@  replace <<T::default()>> <<assumed_default::<T>()>>
//@  replace <<unsafe { slice::from_raw_parts_mut( self.vec.as_mut_ptr() as *mut u8, self.vec.len() * std::mem::size_of::<T>(), ) }>> <<assumed_bytes_mut(&mut self.vec)>>
//@  sub <<fn write(&mut self, buf: &[u8]) -> std::io::Result<usize> {>>
//@  ret r
//@  spec
//@|        requires old(self).wf(), vstd::layout::size_of::<T>() > 0,
//@|            // machine arithmetic made explicit: the data fits the address space
//@|            old(self).cpos() + buf@.len() <= usize::MAX,
//@|        ensures final(self).wf(),
//@|            // like std's cursor over a Vec<u8>: everything is accepted, the gap up to the
//@|            // position is zero-filled, bytes outside [pos, pos + n) keep their value
//@|            r is Ok && r->Ok_0 == buf@.len(),
//@|            final(self).content() =~= cursor_write(old(self).content(), old(self).cpos(), buf@),
//@|            final(self).cpos() == old(self).cpos() + buf@.len(),
//@  body_prefix
//@|        broadcast use axiom_bytes_len, axiom_bytes_concat, axiom_bytes_zero, axiom_clone_zero;
//@|        let ghost st0 = bytes_of(self.vec@);
//@|        let ghost v0 = self.vec@;
//@  before <<let bytes =>>
//@|        // after the (possible) growth: the old storage, followed by zeros
//@|        proof {
//@|            let v1 = self.vec@;
//@|            if v1.len() > v0.len() {
//@|                let tail = v1.skip(v0.len() as int);
//@|                assert(v1 =~= v0 + tail);
//@|                assert forall|i: int| 0 <= i < tail.len() implies zero_elem(#[trigger] tail[i]) by {
//@|                    assert(tail[i] == v1[i + v0.len()]);
//@|                }
//@|                assert(bytes_of(v1) == st0 + zeros(tail.len() * vstd::layout::size_of::<T>()));
//@|            } else {
//@|                vstd::arithmetic::mul::lemma_mul_inequality(v1.len() as int, v0.len() as int, vstd::layout::size_of::<T>() as int);
//@|                assert(v1 =~= v0);
//@|            }
//@|        }
//@|        let ghost st1 = bytes_of(self.vec@);
//@  before <<self.pos += len;>>
//@|        // after the copy: the written range holds the buffer, everything else is unchanged
//@|        proof {
//@|            let st2 = bytes_of(self.vec@);
//@|            let p0 = old(self).cpos() as int;
//@|            assert(st2.len() == st1.len());
//@|            assert(forall|i: int| 0 <= i < st2.len() ==> st2[i] == (if p0 <= i < p0 + buf@.len() { buf@[i - p0] } else { st1[i] }));
//@|        }
//@  sub <<fn flush(&mut self) -> std::io::Result<()> {>>
//@  ret r
//@  spec
//@|        ensures r is Ok, *final(self) == *old(self),
//@end

//@item epserde/src/utils/aligned_cursor.rs props=C19 name=AlignedCursor::Seek <<impl<T: Alignment> Seek for AlignedCursor<T> {>>
//@  replace <<Seek for>> <<>>
//@  replace <<std::io::Error::new>> <<assumed_io_error_new>>
//@  drop <<fn seek(&mut self, style: SeekFrom) -> std::io::Result<u64> {>>
//@  sub <<fn stream_position(&mut self) -> std::io::Result<u64> {>>
//@  ret r
//@  spec
//@|        ensures r is Ok && r->Ok_0 == old(self).cpos(), *final(self) == *old(self),
//@end

} // verus!
fn main() {}
