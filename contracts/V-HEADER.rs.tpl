// V-HEADER: the stream header and the entry points (C10, C06, C04, C01/C02 at the
// level of whole streams): write_header, check_header, the blanket Serialize /
// Deserialize implementations - for all types T, all readers and writers obeying the
// reader / writer contracts, all header bytes, all stream lengths.
// Generated file: the template is /verif/contracts/V-HEADER.rs.tpl.
#![feature(allocator_api)]
#![allow(unused_imports, unused_variables, dead_code)]
use vstd::prelude::*;
use core::marker::PhantomData;
use core::ops::{Bound, ControlFlow};
use core::alloc::Allocator;
use core::hash::{Hash, Hasher};

// xxhash_rust::xxh3::Xxh3 (dependency, not linkable into a single-file unit): an
// opaque stand-in with the same three operations; its digest is an uninterpreted
// function of the feed (xxh3 is assumed collision-free on feeds, as in V-TYPEINFO)
pub struct Xxh3(u64);
impl Xxh3 {
    pub fn new() -> Self { Xxh3(0) }
}
impl core::hash::Hasher for Xxh3 {
    fn finish(&self) -> u64 { self.0 }
    fn write(&mut self, _bytes: &[u8]) {}
}

// path spellings of the source files (`deser::Error`, `ser::Result`, ...) resolve inside the
// unit as they do in the crate: a change that merely writes a path differently stays decidable
mod deser { pub use super::{Error, Result}; }
mod ser { pub use super::SError as Error; pub use super::SResult as Result; }
verus! {

global size_of usize == 8;

//@include inc/pad_defs.rs

// the padding function under its V-PAD contract (proved there, assumed here)
#[verifier::external_body]
pub fn pad_align_to(value: usize, align_to: usize) -> (r: usize)
    requires is_pow2(align_to as int),
    ensures r < align_to,
            r as int == pad_spec(value as int, align_to as int),
{ unimplemented!() }

pub assume_specification<T>[ <[T]>::as_ptr ](s: &[T]) -> (r: *const T);

//@include inc/deser_base.tpl

//@include inc/ser_prelude.rs

//@include inc/ser_copy.tpl

//@include inc/ser_base.tpl

//@include inc/ser_spec.tpl

// @@V-HEADER: obligations counted from here (the text above is counted in V-DESER / V-SER)

// ---- the hash feed (as in V-TYPEINFO) ----------------------------------------------

pub enum HItem {
    Str(Seq<char>),
    Usize(nat),
}

#[verifier::external_trait_specification]
pub trait ExHasher {
    type ExternalTraitSpecificationFor: core::hash::Hasher;
    fn write_usize(&mut self, i: usize)
        ensures feed(final(self)) == feed(old(self)).push(HItem::Usize(i as nat));
    fn finish(&self) -> (r: u64)
        ensures r == digest(feed(self));
}

pub uninterp spec fn feed<H: ?Sized>(h: &H) -> Seq<HItem>;
/// xxh3 of a feed (uninterpreted)
pub uninterp spec fn digest(f: Seq<HItem>) -> u64;

#[verifier::external_type_specification]
#[verifier::external_body]
pub struct ExXxh3(Xxh3);

pub assume_specification[ Xxh3::new ]() -> (r: Xxh3)
    ensures feed(&r) == Seq::<HItem>::empty();

//@item epserde/src/traits/type_info.rs props=C04,C06,C10 name=TypeHash <<pub trait TypeHash {>>
//@  drop <<fn type_hash_val(&self, hasher: &mut impl core::hash::Hasher) {>>
//@  body_prefix
//@|    /// the published type-hash recipe of Self, as a feed (ghost)
//@|    spec fn th() -> Seq<HItem>;
//@  sub <<fn type_hash(hasher: &mut impl core::hash::Hasher);>>
//@  impl_arg
//@  spec
//@|        ensures feed(final(hasher)) =~= feed(old(hasher)) + Self::th(),
//@end

//@item epserde/src/traits/type_info.rs props=C04,C06,C10 name=AlignHash <<pub trait AlignHash {>>
//@  drop <<fn align_hash_val(&self, hasher: &mut impl core::hash::Hasher, offset_of: &mut usize) {>>
//@  body_prefix
//@|    /// the published alignment-hash recipe of Self at field offset `off` (ghost)
//@|    spec fn ah(off: nat) -> Seq<HItem>;
//@|    /// the field offset after Self
//@|    spec fn ah_off(off: nat) -> nat;
//@|    /// all offsets computed on the way stay within usize (machine arithmetic made explicit)
//@|    spec fn ah_fits(off: nat) -> bool;
//@  sub <<fn align_hash(_hasher: &mut impl core::hash::Hasher, _offset_of: &mut usize);>>
//@  impl_arg
//@  spec
//@|        requires Self::ah_fits(*old(_offset_of) as nat),
//@|        ensures feed(final(_hasher)) =~= feed(old(_hasher)) + Self::ah(*old(_offset_of) as nat),
//@|            *final(_offset_of) as nat == Self::ah_off(*old(_offset_of) as nat),
//@end

// ---- constants (verbatim; the two cookies are opaque values here: their bytes are
// checked by Kani's hdr_bytes_* lemmas against the reference encoder) -----------------

//@item epserde/src/lib.rs name=VERSION <<pub const VERSION: (u16, u16) = (1, 1);>>
//@end

//@item epserde/src/lib.rs name=MAGIC <<pub const MAGIC: u64 = u64::from_ne_bytes(*b"epserde ");>>
//@  attr_before #[verifier::external_body]
//@end

//@item epserde/src/lib.rs name=MAGIC_REV <<pub const MAGIC_REV: u64 = u64::from_le_bytes(MAGIC.to_be_bytes());>>
//@  attr_before #[verifier::external_body]
//@end

/// "epserde " is not a palindrome
pub axiom fn axiom_magic()
    ensures MAGIC != MAGIC_REV;

// ---- further primitives and String: assumed contracts (checked by Kani: rt_full_uints,
// rt_full_string, hdr_bytes_*) -----------------------------------------------------------

pub uninterp spec fn u16_of(s: Seq<u8>) -> u16;
pub uninterp spec fn u64_of(s: Seq<u8>) -> u64;
pub uninterp spec fn u16_bytes(v: u16) -> Seq<u8>;
pub uninterp spec fn u64_bytes(v: u64) -> Seq<u8>;
assumed_prim!(u16, u16_of, 2);
assumed_prim!(u64, u64_of, 8);
assumed_prim_ser!(u16, |v: u16| u16_bytes(v));
assumed_prim_ser!(u64, |v: u64| u64_bytes(v));

pub axiom fn axiom_ne_bytes_h()
    ensures
        forall|v: u16| #[trigger] u16_bytes(v).len() == 2 && u16_of(u16_bytes(v)) == v,
        forall|v: u64| #[trigger] u64_bytes(v).len() == 8 && u64_of(u64_bytes(v)) == v;

/// the UTF-8 bytes of a string / the string of UTF-8 bytes (uninterpreted)
pub uninterp spec fn str_bytes(s: String) -> Seq<u8>;
pub uninterp spec fn string_of(b: Seq<u8>) -> String;
pub axiom fn axiom_str_bytes()
    ensures forall|s: String| string_of(#[trigger] str_bytes(s)) == s && str_bytes(s).len() <= usize::MAX;

/// a string: pointer-width length, (no gap: the unit of u8 is 1), the bytes
impl DeserializeInner for String {
    type DeserType<'a> = &'a str;
    open spec fn parse(s: Seq<u8>, pos: nat) -> PR<Self> {
        if s.len() < 8 { PR::Short }
        else {
            let len = usize_of(s.take(8)) as nat;
            if s.len() < 8 + len { PR::Short } else { PR::Val(string_of(s.subrange(8, 8 + len as int)), 8 + len) }
        }
    }
    open spec fn eps_rel<'a>(d: &'a str, v: Self) -> bool { d@ == v@ }
    proof fn lemma_prefix(s: Seq<u8>, pos: nat, k: nat) {
        let len = usize_of(s.take(8)) as nat;
        if k >= 8 {
            assert(s.take(k as int).take(8) =~= s.take(8));
            if k >= 8 + len { assert(s.take(k as int).subrange(8, 8 + len as int) =~= s.subrange(8, 8 + len as int)); }
        }
    }
    #[verifier::external_body]
    fn _deserialize_full_inner<R: ReadWithPos>(backend: &mut R) -> (r: Result<Self>) { unimplemented!() }
    #[verifier::external_body]
    fn _deserialize_eps_inner<'a>(backend: &mut SliceWithPos<'a>) -> (r: Result<&'a str>) { unimplemented!() }
}

impl SerializeInner for String {
    type SerType = Self;
    const IS_ZERO_COPY: bool = false;
    const ZERO_COPY_MISMATCH: bool = false;
    open spec fn enc(&self, pos: nat) -> Seq<u8> { usize_bytes(str_bytes(*self).len() as usize) + str_bytes(*self) }
    #[verifier::external_body]
    fn _serialize_inner<W: WriteWithNames>(&self, backend: &mut W) -> (r: SResult<()>) { unimplemented!() }
}

/// `core::any::type_name::<T>().to_string()` (recorded replacement of the expression)
pub uninterp spec fn type_name_of<T: ?Sized>() -> String;
#[verifier::external_body]
pub fn assumed_type_name<T: ?Sized>() -> (r: String)
    ensures r == type_name_of::<T>(),
{ unimplemented!() }

// =========================================================================
// the header as a byte string, and the decision table of the reader
// (from the property statements C06 / C10 and contracts/FORMAT.md)
// =========================================================================

/// cookie, major, minor, pointer width, type hash, alignment hash: 29 bytes; then the type name
pub open spec fn hdr_fixed<T: TypeHash + AlignHash>() -> Seq<u8> {
    u64_bytes(MAGIC) + u16_bytes(VERSION.0) + u16_bytes(VERSION.1) + seq![8u8]
        + u64_bytes(digest(T::th())) + u64_bytes(digest(T::ah(0)))
}
pub open spec fn hdr_enc<T: TypeHash + AlignHash>() -> Seq<u8> {
    hdr_fixed::<T>() + type_name_of::<T>().enc(29)
}

pub enum HdrR {
    /// header accepted; it occupies this many bytes
    Pass(nat),
    Endian,
    Magic(u64),
    Major(u16),
    Minor(u16),
    Width(usize),
    /// (hash found in the stream, name found in the stream)
    WrongType(u64, String),
    WrongAlign(u64, String),
    /// the stream ends inside the header
    Short,
}

/// the stream after the 29 fixed bytes (phrased the way a reader advances)
pub open spec fn hdr_after_fixed(s: Seq<u8>) -> Seq<u8> {
    s.skip(8).skip(2).skip(2).skip(1).skip(8).skip(8)
}
/// the stream after an accepted header
pub open spec fn hdr_rest(s: Seq<u8>) -> Seq<u8> {
    hdr_after_fixed(s).skip(String::parse(hdr_after_fixed(s), 29)->Val_1 as int)
}

/// first matching row wins; the name is read before the hashes are compared
pub open spec fn hdr_table<T: TypeHash + AlignHash>(s: Seq<u8>) -> HdrR {
    let s1 = s.skip(8);
    let s2 = s1.skip(2);
    let s3 = s2.skip(2);
    let s4 = s3.skip(1);
    let s5 = s4.skip(8);
    let s6 = s5.skip(8);
    if s.len() < 8 { HdrR::Short }
    else if u64_of(s.take(8)) == MAGIC_REV && MAGIC_REV != MAGIC { HdrR::Endian }
    else if u64_of(s.take(8)) != MAGIC { HdrR::Magic(u64_of(s.take(8))) }
    else if s1.len() < 2 { HdrR::Short }
    else if u16_of(s1.take(2)) != VERSION.0 { HdrR::Major(u16_of(s1.take(2))) }
    else if s2.len() < 2 { HdrR::Short }
    else if u16_of(s2.take(2)) > VERSION.1 { HdrR::Minor(u16_of(s2.take(2))) }
    else if s3.len() < 1 { HdrR::Short }
    else if u8_of(s3.take(1)) != 8 { HdrR::Width(u8_of(s3.take(1)) as usize) }
    else if s4.len() < 8 || s5.len() < 8 { HdrR::Short }
    else {
        match String::parse(s6, 29) {
            PR::Val(name, n) =>
                if u64_of(s4.take(8)) != digest(T::th()) { HdrR::WrongType(u64_of(s4.take(8)), name) }
                else if u64_of(s5.take(8)) != digest(T::ah(0)) { HdrR::WrongAlign(u64_of(s5.take(8)), name) }
                else { HdrR::Pass(29 + n) },
            _ => HdrR::Short,
        }
    }
}

/// what check_header and the two deserializers may answer besides the row of the
/// table: a read error of an unreliable reader (C14), or - only for slice cursors -
/// an alignment error (C12)
pub open spec fn hdr_other_err<R: ReadWithPos>(pre: &R, e: Error) -> bool {
    (e is ReadError && !pre.reliable()) || (e is AlignmentError && pre.is_slice())
}

/// the specific error of a refusing row (C10), or one of the other permitted errors
pub open spec fn hdr_err_ok<T: TypeHash + AlignHash>(row: HdrR, e: Error, unreliable: bool, slice: bool) -> bool {
    let other = (e is ReadError && unreliable) || (e is AlignmentError && slice);
    match row {
        HdrR::Pass(n) => other,
        HdrR::Endian => e is EndiannessError || other,
        HdrR::Magic(c) => e == Error::MagicCookieError(c) || other,
        HdrR::Major(m) => e == Error::MajorVersionMismatch(m) || other,
        HdrR::Minor(m) => e == Error::MinorVersionMismatch(m) || other,
        HdrR::Width(w) => e == Error::UsizeSizeMismatch(w) || other,
        HdrR::WrongType(h, name) => other || (e matches Error::WrongTypeHash { ser_type_name, ser_type_hash, self_type_name, self_type_hash }
            && ser_type_hash == h && self_type_hash == digest(T::th()) && ser_type_name == name && self_type_name == type_name_of::<T>()),
        HdrR::WrongAlign(h, name) => other || (e matches Error::WrongAlignHash { ser_type_name, ser_align_hash, self_type_name, self_align_hash }
            && ser_align_hash == h && self_align_hash == digest(T::ah(0)) && ser_type_name == name && self_type_name == type_name_of::<T>()),
        HdrR::Short => e is ReadError || (e is AlignmentError && slice),
    }
}

pub open spec fn hdr_post<T: TypeHash + AlignHash, R: ReadWithPos>(pre: &R, post: &R, r: Result<()>) -> bool {
    match r {
        Ok(()) => hdr_table::<T>(pre.rem()) matches HdrR::Pass(n)
            && post.rem() =~= hdr_rest(pre.rem()) && post.rpos() == pre.rpos() + n,
        Err(e) => hdr_err_ok::<T>(hdr_table::<T>(pre.rem()), e, !pre.reliable(), pre.is_slice()),
    }
}

// ---- Deserialize: trait, check_header, blanket implementation -------------------------
// `check_header<T: Deserialize + ..>` is called by the blanket `impl Deserialize for T`:
// Verus rejects that as a definition cycle. The bound `Deserialize` of check_header
// (not used by its body) is dropped by a recorded replacement.

/// full-copy result for a whole stream (header, then the value at the offset the header ends)
pub open spec fn stream_full_post<T: DeserializeInner>(row: HdrR, s: Seq<u8>, r: Result<T>, unreliable: bool) -> bool {
    match row {
        HdrR::Pass(n) => match T::parse(hdr_rest(s), n) {
            PR::Val(v, m) => match r { Ok(x) => x == v, Err(e) => e is ReadError && unreliable },
            PR::BadTag(t) => r is Err && (r->Err_0 == Error::InvalidTag(t) || (r->Err_0 is ReadError && unreliable)),
            PR::Short => r is Err && r->Err_0 is ReadError,
        },
        _ => true,
    }
}

//@item epserde/src/deser/mod.rs props=C01,C02,C10 name=Deserialize <<pub trait Deserialize: DeserializeInner {>>
//@  drop <<fn load_full(path: impl AsRef<Path>) -> anyhow::Result<Self> {>>
//@  drop <<fn load_mem<'a>(>>
//@  drop <<fn load_mmap<'a>(>>
//@  drop <<fn mmap<'a>(>>
//@  body_prefix
//@|    /// the row of the header decision table for this type (ghost)
//@|    spec fn row(s: Seq<u8>) -> HdrR;
//@|    /// the specific error of a refusing row
//@|    spec fn row_err(row: HdrR, e: Error, unreliable: bool, slice: bool) -> bool;
//@|    /// offsets of the alignment hash stay within usize (machine arithmetic made explicit)
//@|    spec fn de_ok() -> bool;
//@  sub <<fn deserialize_full(backend: &mut impl ReadNoStd) -> Result<Self>;>>
//@  impl_arg
//@  ret r
//@  spec
//@|        requires old(backend).wf(), Self::de_ok(), old(backend).rem().len() <= usize::MAX,
//@|        ensures
//@|            // C10: a refused header gives the specific error, never a value
//@|            !(Self::row(old(backend).rem()) is Pass) ==> r is Err
//@|                && Self::row_err(Self::row(old(backend).rem()), r->Err_0, !old(backend).reliable(), false),
//@|            // C01: an accepted header is followed by the grammar's parse of the value
//@|            stream_full_post::<Self>(Self::row(old(backend).rem()), old(backend).rem(), r, !old(backend).reliable()),
//@  sub <<fn deserialize_eps(backend: &'_ [u8]) -> Result<Self::DeserType<'_>>;>>
//@  ret r
//@  spec
//@|        requires Self::de_ok(), backend@.len() <= usize::MAX,
//@|            // truncated input may panic in eps mode (documented, C11)
//@|            !(Self::row(backend@) is Short),
//@|            Self::row(backend@) matches HdrR::Pass(n) ==> !(Self::parse(hdr_rest(backend@), n) is Short),
//@|        ensures
//@|            !(Self::row(backend@) is Pass) ==> r is Err && Self::row_err(Self::row(backend@), r->Err_0, false, true),
//@|            // C02: the same grammar as full copy
//@|            Self::row(backend@) matches HdrR::Pass(n) ==> match Self::parse(hdr_rest(backend@), n) {
//@|                PR::Val(v, m) => match r { Ok(d) => Self::eps_rel(d, v), Err(e) => e is AlignmentError },
//@|                PR::BadTag(t) => r is Err && (r->Err_0 == Error::InvalidTag(t) || r->Err_0 is AlignmentError),
//@|                PR::Short => true,
//@|            },
//@end

//@item epserde/src/deser/mod.rs props=C01,C02,C10 name=Deserialize::blanket <<impl<T: TypeHash + AlignHash + DeserializeInner> Deserialize for T {>>
//@  replace_opt <<check_header::<Self>>> <<check_header::<Self, _>>>
//@  body_prefix
//@|    open spec fn row(s: Seq<u8>) -> HdrR { hdr_table::<T>(s) }
//@|    open spec fn row_err(row: HdrR, e: Error, unreliable: bool, slice: bool) -> bool { hdr_err_ok::<T>(row, e, unreliable, slice) }
//@|    open spec fn de_ok() -> bool { T::ah_fits(0) }
//@  sub <<fn deserialize_full(backend: &mut impl ReadNoStd) -> Result<Self> {>>
//@  impl_arg
//@  ret r
//@  sub <<fn deserialize_eps(backend: &'_ [u8]) -> Result<Self::DeserType<'_>> {>>
//@  ret r
//@end

//@item epserde/src/deser/mod.rs props=C10,C06,C04 name=check_header <<pub fn check_header<T: Deserialize + TypeHash + AlignHash>(>>
//@  replace <<core::any::type_name::<T>().to_string()>> <<assumed_type_name::<T>()>>
//@  replace <<xxhash_rust::xxh3::Xxh3::new()>> <<Xxh3::new()>>
//@  replace <<T: Deserialize + TypeHash + AlignHash>> <<T: TypeHash + AlignHash>>
//@  impl_arg
//@  ret r
//@  spec
//@|    requires old(backend).wf(), T::ah_fits(0),
//@|        // slice cursors may panic on truncated input (documented, C11)
//@|        old(backend).is_slice() ==> !(hdr_table::<T>(old(backend).rem()) is Short),
//@|    ensures final(backend).wf(),
//@|        final(backend).reliable() == old(backend).reliable(),
//@|        final(backend).is_slice() == old(backend).is_slice(),
//@|        final(backend).rem().len() <= old(backend).rem().len(),
//@|        hdr_post::<T, ImplArg0>(old(backend), final(backend), r),
//@end


// ---- write_header ------------------------------------------------------------------------

//@item epserde/src/ser/mod.rs props=C06,C10,C13 name=write_header <<pub fn write_header<T: TypeHash + AlignHash>(backend: &mut impl WriteWithNames) -> Result<()> {>>
//@  replace <<Result<()>>> <<SResult<()>>>
//@  replace <<backend.write(>> <<ww_write(backend, >>
//@  replace <<core::any::type_name::<T>().to_string()>> <<assumed_type_name::<T>()>>
//@  replace <<xxhash_rust::xxh3::Xxh3::new()>> <<Xxh3::new()>>
//@  impl_arg
//@  ret r
//@  spec
//@|    requires ser_pre::<ImplArg0>(hdr_enc::<T>(), old(backend)), T::ah_fits(0),
//@|    ensures ser_post::<ImplArg0>(hdr_enc::<T>(), old(backend), final(backend), r),
//@  body_prefix
//@|    let ghost sink0 = backend.sink();
//@|    let ghost f1 = u64_bytes(MAGIC);
//@|    let ghost f2 = u16_bytes(VERSION.0);
//@|    let ghost f3 = u16_bytes(VERSION.1);
//@|    let ghost f4 = seq![8u8];
//@|    let ghost f5 = u64_bytes(digest(T::th()));
//@|    let ghost f6 = u64_bytes(digest(T::ah(0)));
//@|    let ghost f7 = type_name_of::<T>().enc(29);
//@|    proof {
//@|        axiom_ne_bytes_h();
//@|        lemma_fields_prefix(sink0, f1, f2, f3, f4, f5, f6, f7);
//@|    }
//@end

/// C13 for a record of seven consecutive fields: a failure inside the k-th field leaves
/// the old sink contents followed by a prefix of the whole record
pub proof fn lemma_fields_prefix(s0: Seq<u8>, f1: Seq<u8>, f2: Seq<u8>, f3: Seq<u8>, f4: Seq<u8>, f5: Seq<u8>, f6: Seq<u8>, f7: Seq<u8>)
    ensures
        ({
            let all = f1 + f2 + f3 + f4 + f5 + f6 + f7;
            &&& forall|s2: Seq<u8>| is_prefix(s0, s2) && #[trigger] is_prefix(s2, s0 + f1) ==> is_prefix(s2, s0 + all)
            &&& forall|s2: Seq<u8>| is_prefix(s0 + f1, s2) && #[trigger] is_prefix(s2, s0 + f1 + f2) ==> is_prefix(s0, s2) && is_prefix(s2, s0 + all)
            &&& forall|s2: Seq<u8>| is_prefix(s0 + f1 + f2, s2) && #[trigger] is_prefix(s2, s0 + f1 + f2 + f3) ==> is_prefix(s0, s2) && is_prefix(s2, s0 + all)
            &&& forall|s2: Seq<u8>| is_prefix(s0 + f1 + f2 + f3, s2) && #[trigger] is_prefix(s2, s0 + f1 + f2 + f3 + f4) ==> is_prefix(s0, s2) && is_prefix(s2, s0 + all)
            &&& forall|s2: Seq<u8>| is_prefix(s0 + f1 + f2 + f3 + f4, s2) && #[trigger] is_prefix(s2, s0 + f1 + f2 + f3 + f4 + f5) ==> is_prefix(s0, s2) && is_prefix(s2, s0 + all)
            &&& forall|s2: Seq<u8>| is_prefix(s0 + f1 + f2 + f3 + f4 + f5, s2) && #[trigger] is_prefix(s2, s0 + f1 + f2 + f3 + f4 + f5 + f6) ==> is_prefix(s0, s2) && is_prefix(s2, s0 + all)
            &&& forall|s2: Seq<u8>| is_prefix(s0 + f1 + f2 + f3 + f4 + f5 + f6, s2) && #[trigger] is_prefix(s2, s0 + f1 + f2 + f3 + f4 + f5 + f6 + f7) ==> is_prefix(s0, s2) && is_prefix(s2, s0 + all)
            &&& s0 + f1 + f2 + f3 + f4 + f5 + f6 + f7 =~= s0 + all
        }),
{
    let all = f1 + f2 + f3 + f4 + f5 + f6 + f7;
    assert forall|s2: Seq<u8>| is_prefix(s0, s2) && #[trigger] is_prefix(s2, s0 + f1) implies is_prefix(s2, s0 + all) by {
        lemma_err_first(s0, f1, f2 + f3 + f4 + f5 + f6 + f7, s2);
        assert(f1 + (f2 + f3 + f4 + f5 + f6 + f7) =~= all);
    }
    assert forall|s2: Seq<u8>| is_prefix(s0 + f1, s2) && #[trigger] is_prefix(s2, s0 + f1 + f2) implies is_prefix(s0, s2) && is_prefix(s2, s0 + all) by {
        lemma_err_second(s0, f1, f2, s2);
        lemma_err_first(s0, f1 + f2, f3 + f4 + f5 + f6 + f7, s2);
        assert((f1 + f2) + (f3 + f4 + f5 + f6 + f7) =~= all);
    }
    assert forall|s2: Seq<u8>| is_prefix(s0 + f1 + f2, s2) && #[trigger] is_prefix(s2, s0 + f1 + f2 + f3) implies is_prefix(s0, s2) && is_prefix(s2, s0 + all) by {
        assert(s0 + f1 + f2 =~= s0 + (f1 + f2));
        assert(s0 + f1 + f2 + f3 =~= s0 + (f1 + f2) + f3);
        lemma_err_second(s0, f1 + f2, f3, s2);
        lemma_err_first(s0, f1 + f2 + f3, f4 + f5 + f6 + f7, s2);
        assert((f1 + f2 + f3) + (f4 + f5 + f6 + f7) =~= all);
    }
    assert forall|s2: Seq<u8>| is_prefix(s0 + f1 + f2 + f3, s2) && #[trigger] is_prefix(s2, s0 + f1 + f2 + f3 + f4) implies is_prefix(s0, s2) && is_prefix(s2, s0 + all) by {
        assert(s0 + f1 + f2 + f3 =~= s0 + (f1 + f2 + f3));
        assert(s0 + f1 + f2 + f3 + f4 =~= s0 + (f1 + f2 + f3) + f4);
        lemma_err_second(s0, f1 + f2 + f3, f4, s2);
        lemma_err_first(s0, f1 + f2 + f3 + f4, f5 + f6 + f7, s2);
        assert((f1 + f2 + f3 + f4) + (f5 + f6 + f7) =~= all);
    }
    assert forall|s2: Seq<u8>| is_prefix(s0 + f1 + f2 + f3 + f4, s2) && #[trigger] is_prefix(s2, s0 + f1 + f2 + f3 + f4 + f5) implies is_prefix(s0, s2) && is_prefix(s2, s0 + all) by {
        assert(s0 + f1 + f2 + f3 + f4 =~= s0 + (f1 + f2 + f3 + f4));
        assert(s0 + f1 + f2 + f3 + f4 + f5 =~= s0 + (f1 + f2 + f3 + f4) + f5);
        lemma_err_second(s0, f1 + f2 + f3 + f4, f5, s2);
        lemma_err_first(s0, f1 + f2 + f3 + f4 + f5, f6 + f7, s2);
        assert((f1 + f2 + f3 + f4 + f5) + (f6 + f7) =~= all);
    }
    assert forall|s2: Seq<u8>| is_prefix(s0 + f1 + f2 + f3 + f4 + f5, s2) && #[trigger] is_prefix(s2, s0 + f1 + f2 + f3 + f4 + f5 + f6) implies is_prefix(s0, s2) && is_prefix(s2, s0 + all) by {
        assert(s0 + f1 + f2 + f3 + f4 + f5 =~= s0 + (f1 + f2 + f3 + f4 + f5));
        assert(s0 + f1 + f2 + f3 + f4 + f5 + f6 =~= s0 + (f1 + f2 + f3 + f4 + f5) + f6);
        lemma_err_second(s0, f1 + f2 + f3 + f4 + f5, f6, s2);
        lemma_err_first(s0, f1 + f2 + f3 + f4 + f5 + f6, f7, s2);
    }
    assert forall|s2: Seq<u8>| is_prefix(s0 + f1 + f2 + f3 + f4 + f5 + f6, s2) && #[trigger] is_prefix(s2, s0 + f1 + f2 + f3 + f4 + f5 + f6 + f7) implies is_prefix(s0, s2) && is_prefix(s2, s0 + all) by {
        assert(s0 + f1 + f2 + f3 + f4 + f5 + f6 =~= s0 + (f1 + f2 + f3 + f4 + f5 + f6));
        assert(s0 + f1 + f2 + f3 + f4 + f5 + f6 + f7 =~= s0 + (f1 + f2 + f3 + f4 + f5 + f6) + f7);
        lemma_err_second(s0, f1 + f2 + f3 + f4 + f5 + f6, f7, s2);
    }
    assert(s0 + f1 + f2 + f3 + f4 + f5 + f6 + f7 =~= s0 + all);
}


// ---- Serialize: trait and blanket implementation -------------------------------------------
// The default method `Serialize::serialize` speaks about the caller's sink after the
// position-tracking wrapper is gone: the prophetic ghost fields fin_sink / fin_wf of the
// writer contract (ser_base.tpl) carry that through every generic writer call.
//@item epserde/src/ser/mod.rs props=C01,C06,C13 name=Serialize <<pub trait Serialize {>>
//@  replace <<Result<()>>> <<SResult<()>>>
//@  drop <<fn serialize_with_schema(&self, backend: &mut impl WriteNoStd) -> Result<Schema> {>>
//@  drop <<fn store(&self, path: impl AsRef<Path>) -> Result<()> {>>
//@  body_prefix
//@|    /// the whole stream for `self`, written from offset 0 (ghost)
//@|    spec fn stream(&self) -> Seq<u8>;
//@|    /// offsets of the alignment hash stay within usize (machine arithmetic made explicit)
//@|    spec fn ser_ok(&self) -> bool;
//@  sub <<fn serialize(&self, backend: &mut impl WriteNoStd) -> Result<usize> {>>
//@  replace <<Result<usize>>> <<SResult<usize>>>
//@  impl_arg
//@  ret r
//@  spec
//@|        requires old(backend).wf(), self.ser_ok(),
//@|            old(backend).sink().len() + self.stream().len() <= usize::MAX,
//@|        ensures final(backend).wf(),
//@|            match r {
//@|                // C06: the caller's sink has received exactly the published stream; the count is its length
//@|                Ok(n) => final(backend).sink() =~= old(backend).sink() + self.stream() && n == self.stream().len(),
//@|                // C13: a write error, and what the sink accepted is a prefix of the stream
//@|                Err(e) => e is WriteError
//@|                    && is_prefix(old(backend).sink(), final(backend).sink())
//@|                    && is_prefix(final(backend).sink(), old(backend).sink() + self.stream()),
//@|            },
//@  sub <<fn serialize_on_field_write(&self, backend: &mut impl WriteWithNames) -> Result<()>;>>
//@  impl_arg
//@  ret r
//@  spec
//@|        requires ser_pre::<ImplArg0>(self.stream(), old(backend)), old(backend).wpos() == 0, self.ser_ok(),
//@|        ensures ser_post::<ImplArg0>(self.stream(), old(backend), final(backend), r),
//@end

//@item epserde/src/ser/mod.rs props=C01,C06,C13 name=Serialize::blanket <<impl<T: SerializeInner> Serialize for T>>
//@  replace <<Result<()>>> <<SResult<()>>>
//@  replace <<backend.write(>> <<ww_write(backend, >>
//@  replace_opt <<write_header::<<Self as SerializeInner>::SerType>>> <<write_header::<<Self as SerializeInner>::SerType, _>>>
//@  body_prefix
//@|    open spec fn stream(&self) -> Seq<u8> {
//@|        hdr_enc::<<T as SerializeInner>::SerType>() + self.enc(hdr_enc::<<T as SerializeInner>::SerType>().len())
//@|    }
//@|    open spec fn ser_ok(&self) -> bool { <<T as SerializeInner>::SerType as AlignHash>::ah_fits(0) }
//@  sub <<fn serialize_on_field_write(&self, backend: &mut impl WriteWithNames) -> Result<()> {>>
//@  impl_arg
//@  ret r
//@  body_prefix
//@|        let ghost sink0 = backend.sink();
//@|        let ghost h = hdr_enc::<<T as SerializeInner>::SerType>();
//@|        let ghost e = self.enc(h.len());
//@|        proof {
//@|            assert forall|s2: Seq<u8>| is_prefix(sink0, s2) && #[trigger] is_prefix(s2, sink0 + h)
//@|                implies is_prefix(s2, sink0 + (h + e)) by { lemma_err_first(sink0, h, e, s2); }
//@|            assert forall|s2: Seq<u8>| is_prefix(sink0 + h, s2) && #[trigger] is_prefix(s2, sink0 + h + e)
//@|                implies is_prefix(sink0, s2) && is_prefix(s2, sink0 + (h + e)) by { lemma_err_second(sink0, h, e, s2); }
//@|            assert(sink0 + h + e =~= sink0 + (h + e));
//@|        }
//@end

// =========================================================================
// whole-stream lemmas: what the writer contract and the reader contract give together
// =========================================================================

/// xxh3 is assumed collision-free on feeds (the only way a 64-bit digest can carry C04)
pub axiom fn axiom_digest_injective()
    ensures forall|a: Seq<HItem>, b: Seq<HItem>| #[trigger] digest(a) == #[trigger] digest(b) ==> a == b;

/// the header written for T is accepted when read as T, and the reader resumes right after it
pub proof fn lemma_hdr_accepts<T: TypeHash + AlignHash>(rest: Seq<u8>)
    ensures hdr_table::<T>(hdr_enc::<T>() + rest) == HdrR::Pass(hdr_enc::<T>().len()),
        hdr_rest(hdr_enc::<T>() + rest) =~= rest,
{
    axiom_ne_bytes_h();
    axiom_ne_bytes();
    axiom_str_bytes();
    let name = type_name_of::<T>();
    let nb = str_bytes(name);
    let f1 = u64_bytes(MAGIC);
    let f2 = u16_bytes(VERSION.0);
    let f3 = u16_bytes(VERSION.1);
    let f4 = seq![8u8];
    let f5 = u64_bytes(digest(T::th()));
    let f6 = u64_bytes(digest(T::ah(0)));
    let f7 = usize_bytes(nb.len() as usize) + nb;
    let s = hdr_enc::<T>() + rest;
    assert(s =~= f1 + (f2 + (f3 + (f4 + (f5 + (f6 + (f7 + rest)))))));
    let s1 = s.skip(8);
    assert(s.take(8) =~= f1);
    assert(s1 =~= f2 + (f3 + (f4 + (f5 + (f6 + (f7 + rest))))));
    assert(s1.take(2) =~= f2);
    let s2 = s1.skip(2);
    assert(s2 =~= f3 + (f4 + (f5 + (f6 + (f7 + rest)))));
    assert(s2.take(2) =~= f3);
    let s3 = s2.skip(2);
    assert(s3 =~= f4 + (f5 + (f6 + (f7 + rest))));
    assert(s3.take(1) =~= f4);
    let s4 = s3.skip(1);
    assert(s4 =~= f5 + (f6 + (f7 + rest)));
    assert(s4.take(8) =~= f5);
    let s5 = s4.skip(8);
    assert(s5 =~= f6 + (f7 + rest));
    assert(s5.take(8) =~= f6);
    let s6 = s5.skip(8);
    assert(s6 =~= f7 + rest);
    assert(s6.take(8) =~= usize_bytes(nb.len() as usize));
    assert(s6.subrange(8, 8 + nb.len() as int) =~= nb);
    assert(s6.skip(8 + nb.len() as int) =~= rest);
    assert(hdr_enc::<T>().len() == 29 + 8 + nb.len());
}

/// C01 / C06 for whole streams: the stream written for `v` is accepted by the header
/// check of its serialization type, and the value that follows parses back to `v`
pub proof fn lemma_stream_rt<T: RoundTrip + TypeHash + AlignHash>(v: T, rest: Seq<u8>)
    ensures
        hdr_table::<T>(hdr_enc::<T>() + v.enc(hdr_enc::<T>().len()) + rest) == HdrR::Pass(hdr_enc::<T>().len()),
        T::parse(hdr_rest(hdr_enc::<T>() + v.enc(hdr_enc::<T>().len()) + rest), hdr_enc::<T>().len())
            == PR::Val(v, v.enc(hdr_enc::<T>().len()).len()),
{
    let n = hdr_enc::<T>().len();
    let e = v.enc(n);
    assert(hdr_enc::<T>() + e + rest =~= hdr_enc::<T>() + (e + rest));
    lemma_hdr_accepts::<T>(e + rest);
    v.lemma_rt(n, rest);
}

/// C04 at the level of streams: a stream written for T, offered to a type U whose
/// type-hash recipe differs, is refused with the type-hash error carrying T's digest
/// and T's name - never a value (the recipes and their distinctness are V-TYPEINFO's)
pub proof fn lemma_cross_type<T: TypeHash + AlignHash, U: TypeHash + AlignHash>(rest: Seq<u8>)
    requires T::th() != U::th(),
    ensures hdr_table::<U>(hdr_enc::<T>() + rest) == HdrR::WrongType(digest(T::th()), type_name_of::<T>()),
{
    axiom_digest_injective();
    axiom_ne_bytes_h();
    axiom_ne_bytes();
    axiom_str_bytes();
    let name = type_name_of::<T>();
    let nb = str_bytes(name);
    let f1 = u64_bytes(MAGIC);
    let f2 = u16_bytes(VERSION.0);
    let f3 = u16_bytes(VERSION.1);
    let f4 = seq![8u8];
    let f5 = u64_bytes(digest(T::th()));
    let f6 = u64_bytes(digest(T::ah(0)));
    let f7 = usize_bytes(nb.len() as usize) + nb;
    let s = hdr_enc::<T>() + rest;
    assert(s =~= f1 + (f2 + (f3 + (f4 + (f5 + (f6 + (f7 + rest)))))));
    let s1 = s.skip(8);
    assert(s.take(8) =~= f1);
    assert(s1 =~= f2 + (f3 + (f4 + (f5 + (f6 + (f7 + rest))))));
    assert(s1.take(2) =~= f2);
    let s2 = s1.skip(2);
    assert(s2 =~= f3 + (f4 + (f5 + (f6 + (f7 + rest)))));
    assert(s2.take(2) =~= f3);
    let s3 = s2.skip(2);
    assert(s3 =~= f4 + (f5 + (f6 + (f7 + rest))));
    assert(s3.take(1) =~= f4);
    let s4 = s3.skip(1);
    assert(s4 =~= f5 + (f6 + (f7 + rest)));
    assert(s4.take(8) =~= f5);
    let s5 = s4.skip(8);
    assert(s5 =~= f6 + (f7 + rest));
    assert(s5.take(8) =~= f6);
    let s6 = s5.skip(8);
    assert(s6 =~= f7 + rest);
    assert(s6.take(8) =~= usize_bytes(nb.len() as usize));
    assert(s6.subrange(8, 8 + nb.len() as int) =~= nb);
}


/// C11 for the header: the header is self-delimiting. If a stream passes the header check,
/// every prefix that cuts into the header is `Short`, and every prefix that contains the
/// header passes as well, leaving the corresponding prefix of the rest.
pub proof fn lemma_hdr_prefix<T: TypeHash + AlignHash>(s: Seq<u8>, k: nat)
    requires hdr_table::<T>(s) is Pass, k <= s.len(),
    ensures hdr_table::<T>(s)->Pass_0 <= s.len(),
        k < hdr_table::<T>(s)->Pass_0 ==> hdr_table::<T>(s.take(k as int)) is Short,
        k >= hdr_table::<T>(s)->Pass_0 ==> hdr_table::<T>(s.take(k as int)) == hdr_table::<T>(s)
            && hdr_rest(s.take(k as int)) =~= hdr_rest(s).take(k - hdr_table::<T>(s)->Pass_0),
{
    let p = s.take(k as int);
    let s6 = hdr_after_fixed(s);
    let n7 = String::parse(s6, 29)->Val_1;
    assert(s.len() >= 29);
    assert(s6.len() == s.len() - 29);
    if k >= 8 { assert(p.take(8) =~= s.take(8)); }
    if k >= 10 { assert(p.skip(8).take(2) =~= s.skip(8).take(2)); }
    if k >= 12 { assert(p.skip(8).skip(2).take(2) =~= s.skip(8).skip(2).take(2)); }
    if k >= 13 { assert(p.skip(8).skip(2).skip(2).take(1) =~= s.skip(8).skip(2).skip(2).take(1)); }
    if k >= 21 { assert(p.skip(8).skip(2).skip(2).skip(1).take(8) =~= s.skip(8).skip(2).skip(2).skip(1).take(8)); }
    if k >= 29 {
        assert(p.skip(8).skip(2).skip(2).skip(1).skip(8).take(8) =~= s.skip(8).skip(2).skip(2).skip(1).skip(8).take(8));
        assert(hdr_after_fixed(p) =~= s6.take(k - 29));
        String::lemma_prefix(s6, 29, (k - 29) as nat);
        if k >= 29 + n7 {
            assert(hdr_rest(p) =~= hdr_rest(s).take(k - 29 - n7));
        }
    }
}

/// C11 for whole streams, through the entry point's contract: if a stream is accepted and
/// the value parses, then every strict prefix of header ++ value lands on a row / parse
/// result that `deserialize_full` answers with a read error (`Short` header, or accepted
/// header followed by a `Short` value) - never with a value
pub proof fn lemma_stream_prefix<T: DeserializeInner + TypeHash + AlignHash>(s: Seq<u8>, k: nat)
    requires hdr_table::<T>(s) is Pass,
        T::parse(hdr_rest(s), hdr_table::<T>(s)->Pass_0) is Val,
        k < hdr_table::<T>(s)->Pass_0 + T::parse(hdr_rest(s), hdr_table::<T>(s)->Pass_0)->Val_1,
    ensures k <= s.len(),
        hdr_table::<T>(s.take(k as int)) is Short
        || (hdr_table::<T>(s.take(k as int)) == hdr_table::<T>(s)
            && T::parse(hdr_rest(s.take(k as int)), hdr_table::<T>(s)->Pass_0) is Short),
{
    let n = hdr_table::<T>(s)->Pass_0;
    T::lemma_prefix(hdr_rest(s), n, 0);
    lemma_hdr_prefix::<T>(s, 0);
    assert(hdr_rest(s).len() == s.len() - n) by {
        let s6 = hdr_after_fixed(s);
        String::lemma_prefix(s6, 29, 0);
    }
    lemma_hdr_prefix::<T>(s, k);
    if k >= n {
        T::lemma_prefix(hdr_rest(s), n, (k - n) as nat);
    }
}

} // verus!
fn main() {}
