// V-WRITE: the position-tracking writer and the padding loop (C07, C13).
// Generated file: the template is /verif/contracts/V-WRITE.rs.tpl.
#![allow(unused_imports, unused_variables, dead_code)]
use vstd::prelude::*;
verus! {

global size_of usize == 8;

//@include inc/pad_defs.rs

// the padding function under its V-PAD contract (proved there, assumed here)
#[verifier::external_body]
pub fn pad_align_to(value: usize, align_to: usize) -> (r: usize)
    requires is_pow2(align_to as int),
    ensures r < align_to,
            r as int == pad_spec(value as int, align_to as int),
{ unimplemented!() }

//@include inc/ser_prelude.rs

//@include inc/ser_common.tpl

//@include inc/ser_copy.tpl

//@include inc/ser_base.tpl

} // verus!
fn main() {}
