// V-WRITE: the position-tracking writer and the padding loop (C07, C13).
// Generated file: the template is /verif/contracts/V-WRITE.rs.tpl.
#![allow(unused_imports, unused_variables, dead_code)]
use vstd::prelude::*;
verus! {

global size_of usize == 8;

//@include inc/pad_defs.rs

// the padding function under its V-PAD contract (proved there, assumed here)
#[verifier::external_body]
pub fn pad_align_to(value: usize, align_to: usize) -> (r: usize)
    requires is_pow2(align_to as int),
    ensures r < align_to,
            r as int == pad_spec(value as int, align_to as int),
{ unimplemented!() }

pub open spec fn zeros(n: nat) -> Seq<u8> { Seq::new(n, |i: int| 0u8) }

pub open spec fn is_prefix(a: Seq<u8>, b: Seq<u8>) -> bool {
    a.len() <= b.len() && a =~= b.take(a.len() as int)
}

/// a failure while writing the i-th zero of a gap leaves a prefix of the gap
proof fn lemma_gap_prefix(sink0: Seq<u8>, i: nat, pad: nat, s2: Seq<u8>)
    requires i < pad,
        is_prefix(sink0 + zeros(i), s2),
        is_prefix(s2, sink0 + zeros(i) + seq![0u8]),
    ensures is_prefix(sink0, s2), is_prefix(s2, sink0 + zeros(pad)),
{
    let cur = sink0 + zeros(i);
    assert(cur + seq![0u8] =~= sink0 + zeros(i + 1));
    assert(sink0 =~= s2.take(sink0.len() as int)) by {
        assert(cur =~= s2.take(cur.len() as int));
        assert forall|j: int| 0 <= j < sink0.len() implies sink0[j] == s2[j] by {
            assert(cur[j] == s2.take(cur.len() as int)[j]);
        }
    }
    assert(s2 =~= (sink0 + zeros(pad)).take(s2.len() as int)) by {
        assert(s2 =~= (sink0 + zeros(i + 1)).take(s2.len() as int));
        assert forall|j: int| 0 <= j < s2.len() implies s2[j] == (sink0 + zeros(pad))[j] by {
            assert(s2[j] == (sink0 + zeros(i + 1)).take(s2.len() as int)[j]);
        }
    }
}

// =========================================================================
// errors and traits (verbatim from /repo)
// =========================================================================

//@item epserde/src/ser/mod.rs name=ser::Error <<pub enum Error {>>
//@  replace <<FileOpenError(std::io::Error),>> <<>>
//@end

//@item epserde/src/ser/mod.rs name=ser::Result <<pub type Result<T> = core::result::Result<T, Error>;>>
//@end

//@item epserde/src/traits/type_info.rs props=C07 name=MaxSizeOf <<pub trait MaxSizeOf: Sized {>>
//@  body_prefix
//@|    /// the alignment unit of the type (ghost)
//@|    spec fn unit() -> nat;
//@  sub <<fn max_size_of() -> usize;>>
//@  ret r
//@  spec
//@|        ensures r as nat == Self::unit(), is_pow2(r as int),
//@end

//@item epserde/src/ser/write.rs props=C07,C13 name=WriteNoStd <<pub trait WriteNoStd {>>
//@  replace <<ser::Result>> <<Result>>
//@  body_prefix
//@|    /// the bytes the underlying sink has accepted so far (ghost)
//@|    spec fn sink(&self) -> Seq<u8>;
//@|    /// representation invariant
//@|    spec fn wf(&self) -> bool;
//@|    /// the position a position-tracking writer reports (ghost)
//@|    spec fn wpos(&self) -> nat;
//@  sub <<fn write_all(&mut self, buf: &[u8]) -> ser::Result<()>;>>
//@  ret r
//@  spec
//@|        requires old(self).wf(),
//@|            // streams are shorter than the address space (machine arithmetic made explicit)
//@|            old(self).sink().len() + buf@.len() <= usize::MAX,
//@|        ensures final(self).wf(),
//@|            match r {
//@|                Ok(()) => final(self).sink() =~= old(self).sink() + buf@
//@|                    && final(self).wpos() == old(self).wpos() + buf@.len(),
//@|                Err(e) => e is WriteError
//@|                    && is_prefix(old(self).sink(), final(self).sink())
//@|                    && is_prefix(final(self).sink(), old(self).sink() + buf@)
//@|                    && final(self).wpos() == old(self).wpos(),
//@|            },
//@  sub <<fn flush(&mut self) -> ser::Result<()>;>>
//@  ret r
//@  spec
//@|        requires old(self).wf(),
//@|        ensures final(self).wf(), final(self).sink() == old(self).sink(), final(self).wpos() == old(self).wpos(),
//@|            match r { Ok(()) => true, Err(e) => e is WriteError },
//@end

//@item epserde/src/ser/write.rs props=C07 name=WriteWithPos <<pub trait WriteWithPos: WriteNoStd {>>
//@  sub <<fn pos(&self) -> usize;>>
//@  ret r
//@  spec
//@|        requires self.wf(),
//@|        ensures r as nat == self.wpos(),
//@end

// =========================================================================
// the position-tracking writer
// =========================================================================

//@item epserde/src/ser/write.rs name=WriterWithPos <<pub struct WriterWithPos<'a, F: WriteNoStd> {>>
//@end

//@item epserde/src/ser/write.rs props=C07 name=WriterWithPos::inherent <<impl<'a, F: WriteNoStd> WriterWithPos<'a, F> {>>
//@  sub <<pub fn new(backend: &'a mut F) -> Self {>>
//@  ret r
//@  spec
//@|        requires old(backend).wf(),
//@|        ensures r.wf(), r.sink() == old(backend).sink(), r.wpos() == 0,
//@end

//@item epserde/src/ser/write.rs props=C07,C13 name=WriterWithPos::WriteNoStd <<impl<F: WriteNoStd> WriteNoStd for WriterWithPos<'_, F> {>>
//@  replace <<ser::Result>> <<Result>>
//@  body_prefix
//@|    closed spec fn sink(&self) -> Seq<u8> { self.backend.sink() }
//@|    /// the reported position never exceeds what the sink has accepted
//@|    closed spec fn wf(&self) -> bool { self.backend.wf() && self.pos as nat <= self.backend.sink().len() }
//@|    closed spec fn wpos(&self) -> nat { self.pos as nat }
//@  sub <<fn write_all(&mut self, buf: &[u8]) -> ser::Result<()> {>>
//@  ret r
//@  sub <<fn flush(&mut self) -> ser::Result<()> {>>
//@  ret r
//@end

//@item epserde/src/ser/write.rs props=C07 name=WriterWithPos::WriteWithPos <<impl<F: WriteNoStd> WriteWithPos for WriterWithPos<'_, F> {>>
//@  sub <<fn pos(&self) -> usize {>>
//@  ret r
//@end

// =========================================================================
// WriteWithNames: align and write_bytes (default methods).
// `write` is dropped: SerializeInner and WriteWithNames are mutually
// recursive traits, which Verus rejects; `SerializeInner::_serialize_inner`
// is dropped for the same reason (the serialization layer is verified with
// Kani instead).
// =========================================================================

//@item epserde/src/traits/copy_type.rs name=CopySelector <<pub trait CopySelector {>>
//@end
//@item epserde/src/traits/copy_type.rs name=Zero <<pub struct Zero {}>>
//@end
//@item epserde/src/traits/copy_type.rs name=Zero::CopySelector <<impl CopySelector for Zero {>>
//@end
//@item epserde/src/traits/copy_type.rs name=CopyType <<pub trait CopyType: Sized {>>
//@end
//@item epserde/src/traits/copy_type.rs name=ZeroCopy <<pub trait ZeroCopy: CopyType<Copy = Zero> + Copy + MaxSizeOf + 'static {}>>
//@end
//@item epserde/src/traits/copy_type.rs name=ZeroCopy::blanket <<impl<T: CopyType<Copy = Zero> + Copy + MaxSizeOf + 'static> ZeroCopy for T {}>>
//@end

//@item epserde/src/ser/mod.rs name=SerializeInner <<pub trait SerializeInner {>>
//@  drop <<fn _serialize_inner(&self, backend: &mut impl WriteWithNames) -> Result<()>;>>
//@end

//@item epserde/src/ser/write_with_names.rs props=C07,C13 name=WriteWithNames <<pub trait WriteWithNames: WriteWithPos + Sized {>>
//@  drop <<fn write<V: SerializeInner>(&mut self, _field_name: &str, value: &V) -> Result<()> {>>
//@  sub <<fn align<V: MaxSizeOf>(&mut self) -> Result<()> {>>
//@  ret r
//@  spec
//@|        requires old(self).wf(),
//@|            old(self).wpos() <= old(self).sink().len(),
//@|            old(self).sink().len() + V::unit() <= usize::MAX,
//@|        ensures final(self).wf(),
//@|            ({
//@|                let pad = pad_spec(old(self).wpos() as int, V::unit() as int) as nat;
//@|                match r {
//@|                    // exactly the minimal zero gap; the position ends on a multiple of the unit
//@|                    Ok(()) => final(self).sink() =~= old(self).sink() + zeros(pad)
//@|                        && final(self).wpos() == old(self).wpos() + pad,
//@|                    // on failure nothing but (part of) the zero gap was handed to the sink
//@|                    Err(e) => e is WriteError
//@|                        && is_prefix(old(self).sink(), final(self).sink())
//@|                        && is_prefix(final(self).sink(), old(self).sink() + zeros(pad)),
//@|                }
//@|            }),
//@  body_prefix
//@|        let ghost sink0 = self.sink();
//@|        let ghost wpos0 = self.wpos();
//@  loop_iter 1 it
//@  loop 1
//@|            invariant
//@|                self.wf(),
//@|                padding as int == pad_spec(wpos0 as int, V::unit() as int),
//@|                padding < V::unit(),
//@|                sink0.len() + V::unit() <= usize::MAX,
//@|                self.sink() =~= sink0 + zeros(it.index@ as nat),
//@|                self.wpos() == wpos0 + it.index@,
//@|                sink0 == old(self).sink(), wpos0 == old(self).wpos(),
//@  loop_body_prefix 1
//@|            proof {
//@|                let i = it.index@ as nat;
//@|                assert forall|s2: Seq<u8>| #[trigger] is_prefix(s2, sink0 + zeros(i) + seq![0u8]) && is_prefix(sink0 + zeros(i), s2)
//@|                    implies is_prefix(sink0, s2) && is_prefix(s2, sink0 + zeros(padding as nat)) by {
//@|                    lemma_gap_prefix(sink0, i, padding as nat, s2);
//@|                }
//@|                assert(self.sink() + seq![0u8] =~= sink0 + zeros(i) + seq![0u8]);
//@|            }
//@  loop_body_suffix 1
//@|            proof {
//@|                assert(zeros(it.index@ as nat) + seq![0u8] =~= zeros((it.index@ + 1) as nat));
//@|            }
//@  sub <<fn write_bytes<V: SerializeInner + ZeroCopy>(&mut self, value: &[u8]) -> Result<()> {>>
//@  ret r
//@  spec
//@|        requires old(self).wf(),
//@|            old(self).sink().len() + value@.len() <= usize::MAX,
//@|        ensures final(self).wf(),
//@|            match r {
//@|                Ok(()) => final(self).sink() =~= old(self).sink() + value@
//@|                    && final(self).wpos() == old(self).wpos() + value@.len(),
//@|                Err(e) => e is WriteError
//@|                    && is_prefix(old(self).sink(), final(self).sink())
//@|                    && is_prefix(final(self).sink(), old(self).sink() + value@),
//@|            },
//@end

//@item epserde/src/ser/write_with_names.rs props=C07 name=WriterWithPos::WriteWithNames <<impl<F: WriteNoStd> WriteWithNames for WriterWithPos<'_, F> {}>>
//@end

} // verus!
fn main() {}
