// V-PAD: the padding formula (C07), for every offset and every power-of-two unit.
// Generated file: do not edit; the template is /verif/contracts/V-PAD.rs.tpl.
#![allow(unused_imports)]
use vstd::prelude::*;
verus! {

global size_of usize == 8;

//@include inc/pad_defs.rs
//@include inc/pad_lemmas.rs

// ---- the real function -----------------------------------------------------

//@item epserde/src/lib.rs props=C07 name=pad_align_to <<pub fn pad_align_to(value: usize, align_to: usize) -> usize>>
//@  ret r
//@  spec
//@|    requires is_pow2(align_to as int),
//@|    ensures r < align_to,
//@|            r as int == pad_spec(value as int, align_to as int),
//@  body_prefix
//@|    proof {
//@|        let v = value as u64; let a = align_to as u64;
//@|        let neg: u64 = if v == 0 { 0 } else { (0x1_0000_0000_0000_0000int - v as int) as u64 };
//@|        lemma_pow2_bits(a);
//@|        assert(neg == sub(0, v)) by (bit_vector)
//@|            requires v == 0 ==> neg == 0, v != 0 ==> neg as int == 0x1_0000_0000_0000_0000int - v as int;
//@|        lemma_pad_bits(v, a, neg);
//@|        let r0 = neg & sub(a, 1);
//@|        lemma_mask_is_mod(add(v, r0), a);
//@|        assert(sub(a, 1) == (align_to - 1) as u64) by (bit_vector) requires a != 0, a == align_to as u64; 
//@|        if value as int + r0 as int <= usize::MAX as int {
//@|            assert(add(v, r0) == v + r0);
//@|            lemma_gap_unique(value as int, align_to as int, r0 as int);
//@|        } else {
//@|            // the sum wraps: it is exactly 2^64, itself a multiple of the unit
//@|            let w = add(v, r0);
//@|            assert(w as int == v as int + r0 as int - 0x1_0000_0000_0000_0000int) by (bit_vector)
//@|                requires w == add(v, r0), v as int + r0 as int > 0xffff_ffff_ffff_ffffint;
//@|            lemma_pow2_divides_2_64(align_to as int);
//@|            lemma_mod_shift(w as int, 0x1_0000_0000_0000_0000int, align_to as int);
//@|            lemma_gap_unique(value as int, align_to as int, r0 as int);
//@|        }
//@|    }
//@end

} // verus!
fn main() {}
