// V-PAD: the padding formula (C07), for every offset and every power-of-two unit.
// Generated file: do not edit; the template is /verif/contracts/V-PAD.rs.tpl.
#![allow(unused_imports)]
use vstd::prelude::*;
verus! {

global size_of usize == 8;

// ---- specification (from the property statement, not from the code) -------

/// `a` is a power of two representable in 64 bits.
pub open spec fn is_pow2(a: int) -> bool {
    a == 0x1 || a == 0x2 || a == 0x4 || a == 0x8 || a == 0x10 || a == 0x20 || a == 0x40 || a == 0x80
    || a == 0x100 || a == 0x200 || a == 0x400 || a == 0x800 || a == 0x1000 || a == 0x2000 || a == 0x4000 || a == 0x8000
    || a == 0x1_0000 || a == 0x2_0000 || a == 0x4_0000 || a == 0x8_0000 || a == 0x10_0000 || a == 0x20_0000 || a == 0x40_0000 || a == 0x80_0000
    || a == 0x100_0000 || a == 0x200_0000 || a == 0x400_0000 || a == 0x800_0000 || a == 0x1000_0000 || a == 0x2000_0000 || a == 0x4000_0000 || a == 0x8000_0000
    || a == 0x1_0000_0000 || a == 0x2_0000_0000 || a == 0x4_0000_0000 || a == 0x8_0000_0000
    || a == 0x10_0000_0000 || a == 0x20_0000_0000 || a == 0x40_0000_0000 || a == 0x80_0000_0000
    || a == 0x100_0000_0000 || a == 0x200_0000_0000 || a == 0x400_0000_0000 || a == 0x800_0000_0000
    || a == 0x1000_0000_0000 || a == 0x2000_0000_0000 || a == 0x4000_0000_0000 || a == 0x8000_0000_0000
    || a == 0x1_0000_0000_0000 || a == 0x2_0000_0000_0000 || a == 0x4_0000_0000_0000 || a == 0x8_0000_0000_0000
    || a == 0x10_0000_0000_0000 || a == 0x20_0000_0000_0000 || a == 0x40_0000_0000_0000 || a == 0x80_0000_0000_0000
    || a == 0x100_0000_0000_0000 || a == 0x200_0000_0000_0000 || a == 0x400_0000_0000_0000 || a == 0x800_0000_0000_0000
    || a == 0x1000_0000_0000_0000 || a == 0x2000_0000_0000_0000 || a == 0x4000_0000_0000_0000 || a == 0x8000_0000_0000_0000
}

/// The gap the format prescribes before a block with unit `a` at offset `v`:
/// the smallest g >= 0 with (v + g) a multiple of a.
pub open spec fn pad_spec(v: int, a: int) -> int {
    (a - v % a) % a
}
pub open spec fn completes(v: int, g: int, a: int) -> bool {
    (v + g) % a == 0
}

/// std: two's complement negation.
pub assume_specification[ usize::wrapping_neg ](x: usize) -> (r: usize)
    ensures r as int == (if x == 0 { 0int } else { 0x1_0000_0000_0000_0000int - x as int });

// ---- lemmas ----------------------------------------------------------------

proof fn lemma_pow2_bits(a: u64)
    requires is_pow2(a as int),
    ensures a != 0, a & sub(a, 1) == 0,
{
    assert(a != 0 && a & sub(a, 1) == 0) by (bit_vector)
        requires
    a == 0x1 || a == 0x2 || a == 0x4 || a == 0x8 || a == 0x10 || a == 0x20 || a == 0x40 || a == 0x80
    || a == 0x100 || a == 0x200 || a == 0x400 || a == 0x800 || a == 0x1000 || a == 0x2000 || a == 0x4000 || a == 0x8000
    || a == 0x1_0000 || a == 0x2_0000 || a == 0x4_0000 || a == 0x8_0000 || a == 0x10_0000 || a == 0x20_0000 || a == 0x40_0000 || a == 0x80_0000
    || a == 0x100_0000 || a == 0x200_0000 || a == 0x400_0000 || a == 0x800_0000 || a == 0x1000_0000 || a == 0x2000_0000 || a == 0x4000_0000 || a == 0x8000_0000
    || a == 0x1_0000_0000 || a == 0x2_0000_0000 || a == 0x4_0000_0000 || a == 0x8_0000_0000
    || a == 0x10_0000_0000 || a == 0x20_0000_0000 || a == 0x40_0000_0000 || a == 0x80_0000_0000
    || a == 0x100_0000_0000 || a == 0x200_0000_0000 || a == 0x400_0000_0000 || a == 0x800_0000_0000
    || a == 0x1000_0000_0000 || a == 0x2000_0000_0000 || a == 0x4000_0000_0000 || a == 0x8000_0000_0000
    || a == 0x1_0000_0000_0000 || a == 0x2_0000_0000_0000 || a == 0x4_0000_0000_0000 || a == 0x8_0000_0000_0000
    || a == 0x10_0000_0000_0000 || a == 0x20_0000_0000_0000 || a == 0x40_0000_0000_0000 || a == 0x80_0000_0000_0000
    || a == 0x100_0000_0000_0000 || a == 0x200_0000_0000_0000 || a == 0x400_0000_0000_0000 || a == 0x800_0000_0000_0000
    || a == 0x1000_0000_0000_0000 || a == 0x2000_0000_0000_0000 || a == 0x4000_0000_0000_0000 || a == 0x8000_0000_0000_0000;
}

/// bit level: the masked negation is below the unit and completes `v` to a
/// multiple of the unit (wrapping addition, mask instead of remainder)
proof fn lemma_pad_bits(v: u64, a: u64, neg: u64)
    requires a != 0, a & sub(a, 1) == 0, neg == sub(0, v),
    ensures (neg & sub(a, 1)) < a, (add(v, neg & sub(a, 1)) & sub(a, 1)) == 0,
{
    assert((neg & sub(a, 1)) < a && (add(v, neg & sub(a, 1)) & sub(a, 1)) == 0) by (bit_vector)
        requires a != 0, a & sub(a, 1) == 0, neg == sub(0, v);
}

/// for a power-of-two unit the mask is the remainder
proof fn lemma_mask_is_mod(x: u64, a: u64)
    requires a != 0, a & sub(a, 1) == 0,
    ensures x & sub(a, 1) == x % a,
{
    assert(x & sub(a, 1) == x % a) by (bit_vector)
        requires a != 0, a & sub(a, 1) == 0;
}

/// arithmetic: a gap below the unit that completes v to a multiple is pad_spec
proof fn lemma_gap_unique(v: int, a: int, r: int)
    requires a > 0, v >= 0, 0 <= r < a, (v + r) % a == 0,
    ensures r == pad_spec(v, a),
{
    let m = v % a;
    assert(0 <= m < a) by (nonlinear_arith) requires a > 0, m == v % a;
    assert((m + r) % a == 0) by (nonlinear_arith)
        requires a > 0, m == v % a, (v + r) % a == 0;
    if m + r < a {
        assert(m + r == 0) by (nonlinear_arith) requires 0 <= m + r < a, (m + r) % a == 0, a > 0;
        assert((a - 0) % a == 0) by (nonlinear_arith) requires a > 0;
    } else {
        assert(m + r == a) by (nonlinear_arith) requires a <= m + r < 2 * a, (m + r) % a == 0, a > 0;
        assert((a - m) % a == a - m) by (nonlinear_arith) requires 0 < a - m < a;
    }
}

/// pad_spec is what the statement says: below the unit, completes to a
/// multiple, and no smaller gap does.
pub proof fn lemma_pad_spec_minimal(v: int, a: int)
    requires a > 0, v >= 0,
    ensures 0 <= pad_spec(v, a) < a,
            (v + pad_spec(v, a)) % a == 0,
            forall|g: int| 0 <= g < pad_spec(v, a) ==> !#[trigger] completes(v, g, a),
{
    let m = v % a;
    let p = pad_spec(v, a);
    assert(0 <= m < a) by (nonlinear_arith) requires a > 0, m == v % a;
    assert(0 <= p < a) by (nonlinear_arith) requires a > 0, p == (a - m) % a;
    if m == 0 {
        assert(p == 0) by (nonlinear_arith) requires p == (a - 0) % a, a > 0;
    } else {
        assert(p == a - m) by (nonlinear_arith) requires p == (a - m) % a, 0 < a - m < a;
        vstd::arithmetic::div_mod::lemma_fundamental_div_mod(v, a);
        let q = v / a;
        assert(v + (a - m) == a * (q + 1)) by (nonlinear_arith) requires v == a * q + m;
        vstd::arithmetic::div_mod::lemma_mod_multiples_basic(q + 1, a);
        assert((a * (q + 1)) % a == 0) by (nonlinear_arith) requires ((q + 1) * a) % a == 0;
    }
    assert forall|g: int| 0 <= g < p implies !#[trigger] completes(v, g, a) by {
        if (v + g) % a == 0 {
            lemma_gap_unique(v, a, g);
        }
    }
}

// ---- the real function -----------------------------------------------------

//@item epserde/src/lib.rs props=C07 name=pad_align_to <<pub fn pad_align_to(value: usize, align_to: usize) -> usize>>
//@  ret r
//@  spec
//@|    requires is_pow2(align_to as int),
//@|    ensures r < align_to,
//@|            value as int + r as int <= usize::MAX as int ==> r as int == pad_spec(value as int, align_to as int),
//@  body_prefix
//@|    proof {
//@|        let v = value as u64; let a = align_to as u64;
//@|        let neg: u64 = if v == 0 { 0 } else { (0x1_0000_0000_0000_0000int - v as int) as u64 };
//@|        lemma_pow2_bits(a);
//@|        assert(neg == sub(0, v)) by (bit_vector)
//@|            requires v == 0 ==> neg == 0, v != 0 ==> neg as int == 0x1_0000_0000_0000_0000int - v as int;
//@|        lemma_pad_bits(v, a, neg);
//@|        let r0 = neg & sub(a, 1);
//@|        lemma_mask_is_mod(add(v, r0), a);
//@|        assert(sub(a, 1) == (align_to - 1) as u64) by (bit_vector) requires a != 0, a == align_to as u64; 
//@|        if value as int + r0 as int <= usize::MAX as int {
//@|            assert(add(v, r0) == v + r0);
//@|            lemma_gap_unique(value as int, align_to as int, r0 as int);
//@|        }
//@|    }
//@end

} // verus!
fn main() {}
