// =========================================================================
// Vec<T> and Box<[T]>: the serialization dispatch (impls/vec.rs,
// impls/boxed_slice.rs) over SerializeHelper<Zero | Deep>, all verified
// (the helpers they call are under contract above).
// =========================================================================

//@item epserde/src/ser/mod.rs props=C01,C07,C13 name=SerializeHelper <<pub trait SerializeHelper<T: CopySelector> {>>
//@  replace <<Result<()>>> <<SResult<()>>>
//@  body_prefix
//@|    /// the published encoding of the sequence when written at stream offset `pos` (ghost)
//@|    spec fn enc_impl(&self, pos: nat) -> Seq<u8>;
//@  sub <<fn _serialize_inner(&self, backend: &mut impl WriteWithNames) -> Result<()>;>>
//@  impl_arg
//@  ret r
//@  spec
//@|        requires ser_pre::<ImplArg0>(self.enc_impl(old(backend).wpos()), old(backend)),
//@|        ensures ser_post::<ImplArg0>(self.enc_impl(old(backend).wpos()), old(backend), final(backend), r),
//@end

//@item epserde/src/impls/vec.rs props=C01,C07,C13 name=Vec::SerializeInner <<impl<T: CopyType + SerializeInner + TypeHash + AlignHash> SerializeInner for Vec<T>>>
//@  replace <<ser::Result>> <<SResult>>
//@  body_prefix
//@|    open spec fn enc(&self, pos: nat) -> Seq<u8> { <Vec<T> as SerializeHelper<<T as CopyType>::Copy>>::enc_impl(self, pos) }
//@  sub <<fn _serialize_inner(&self, backend: &mut impl WriteWithNames) -> ser::Result<()> {>>
//@  impl_arg
//@  ret r
//@end

//@item epserde/src/impls/vec.rs props=C01,C07,C13 name=Vec::SerializeHelper<Zero> <<impl<T: ZeroCopy + SerializeInner> SerializeHelper<Zero> for Vec<T> {>>
//@  replace <<ser::Result>> <<SResult>>
//@  body_prefix
//@|    open spec fn enc_impl(&self, pos: nat) -> Seq<u8> { enc_seq_zero::<T>(self@, pos) }
//@  sub <<fn _serialize_inner(&self, backend: &mut impl WriteWithNames) -> ser::Result<()> {>>
//@  impl_arg
//@  ret r
//@end

//@item epserde/src/impls/vec.rs props=C01,C13 name=Vec::SerializeHelper<Deep> <<impl<T: DeepCopy + SerializeInner> SerializeHelper<Deep> for Vec<T> {>>
//@  replace <<ser::Result>> <<SResult>>
//@  body_prefix
//@|    open spec fn enc_impl(&self, pos: nat) -> Seq<u8> { enc_seq_deep::<T>(self@, pos) }
//@  sub <<fn _serialize_inner(&self, backend: &mut impl WriteWithNames) -> ser::Result<()> {>>
//@  impl_arg
//@  ret r
//@end

//@item epserde/src/impls/boxed_slice.rs props=C01,C07,C13 name=BoxSlice::SerializeInner <<impl<T: CopyType + SerializeInner + TypeHash + AlignHash> SerializeInner for Box<[T]>>>
//@  replace <<ser::Result>> <<SResult>>
//@  body_prefix
//@|    open spec fn enc(&self, pos: nat) -> Seq<u8> { <Box<[T]> as SerializeHelper<<T as CopyType>::Copy>>::enc_impl(self, pos) }
//@  sub <<fn _serialize_inner(&self, backend: &mut impl WriteWithNames) -> ser::Result<()> {>>
//@  impl_arg
//@  ret r
//@end

//@item epserde/src/impls/boxed_slice.rs props=C01,C07,C13 name=BoxSlice::SerializeHelper<Zero> <<impl<T: ZeroCopy + SerializeInner> SerializeHelper<Zero> for Box<[T]> {>>
//@  replace <<ser::Result>> <<SResult>>
//@  body_prefix
//@|    open spec fn enc_impl(&self, pos: nat) -> Seq<u8> { enc_seq_zero::<T>(self@, pos) }
//@  sub <<fn _serialize_inner(&self, backend: &mut impl WriteWithNames) -> ser::Result<()> {>>
//@  impl_arg
//@  ret r
//@end

//@item epserde/src/impls/boxed_slice.rs props=C01,C13 name=BoxSlice::SerializeHelper<Deep> <<impl<T: DeepCopy + SerializeInner> SerializeHelper<Deep> for Box<[T]> {>>
//@  replace <<ser::Result>> <<SResult>>
//@  body_prefix
//@|    open spec fn enc_impl(&self, pos: nat) -> Seq<u8> { enc_seq_deep::<T>(self@, pos) }
//@  sub <<fn _serialize_inner(&self, backend: &mut impl WriteWithNames) -> ser::Result<()> {>>
//@  impl_arg
//@  ret r
//@end

/// C01 for vectors and boxed slices of deep-copy elements, at any nesting depth:
/// the instance of the round-trip law, by the sequence lemma and extensionality
//@requires Vec::SerializeHelper<Deep>
impl<T: DeepCopy + RoundTrip + TypeHash + AlignHash> RoundTrip for Vec<T> {
    proof fn lemma_rt(&self, pos: nat, rest: Seq<u8>) {
        axiom_vec_of::<T>();
        assert(self@.len() == self.len() as nat);
        lemma_rt_seq_deep::<T>(self@, pos, rest);
    }
}
//@endrequires
//@requires BoxSlice::SerializeHelper<Deep>
impl<T: DeepCopy + RoundTrip + TypeHash + AlignHash> RoundTrip for Box<[T]> {
    proof fn lemma_rt(&self, pos: nat, rest: Seq<u8>) {
        axiom_box_of::<T>();
        assert(self@.len() == self.len() as nat);
        lemma_rt_seq_deep::<T>(self@, pos, rest);
    }
}
//@endrequires

// =========================================================================
// String (impls/string.rs): written as the sequence of its UTF-8 bytes
// =========================================================================

/// std: the bytes of a string
pub assume_specification[ String::as_bytes ](s: &String) -> (r: &[u8])
    ensures r@ == str_bytes(*s);

//@item epserde/src/impls/string.rs props=C01,C07,C13 name=String::SerializeInner <<impl SerializeInner for String {>>
//@  replace <<ser::Result>> <<SResult>>
//@  body_prefix
//@|    open spec fn enc(&self, pos: nat) -> Seq<u8> { enc_seq_zero::<u8>(str_bytes(*self), pos) }
//@  sub <<fn _serialize_inner(&self, backend: &mut impl WriteWithNames) -> ser::Result<()> {>>
//@  impl_arg
//@  ret r
//@end

// ---- round trips of zero-copy sequences and strings (C01) -------------------------------
// stated as lemmas over the two contracts (not as RoundTrip instances: Rust's coherence
// rules do not let Vec<T> have one instance per copy kind without a third helper trait)

/// the memory image of n elements of T occupies n * size_of::<T>() bytes
pub axiom fn axiom_image_len<T>()
    ensures forall|vs: Seq<T>| #[trigger] image_seq::<T>(vs).len() == vs.len() * vstd::layout::size_of::<T>();

/// decoding the written image of a zero-copy sequence, with anything after it, gives the
/// sequence back and consumes exactly the encoding - for every element type, length, offset
pub proof fn lemma_rt_seq_zero<T: MaxSizeOf>(vs: Seq<T>, pos: nat, rest: Seq<u8>)
    requires vs.len() <= usize::MAX, pad_spec((pos + 8) as int, T::unit() as int) >= 0,
    ensures parse_seq_zero::<T>(enc_seq_zero::<T>(vs, pos) + rest, pos) == PR::Val(vs, enc_seq_zero::<T>(vs, pos).len()),
{
    axiom_ne_bytes();
    axiom_image_len::<T>();
    axiom_zc_image::<T>();
    let head = usize_bytes(vs.len() as usize);
    let pad = pad_spec((pos + 8) as int, T::unit() as int) as nat;
    let gap = zeros(pad);
    let img = image_seq::<T>(vs);
    let s = enc_seq_zero::<T>(vs, pos) + rest;
    assert(pad_spec(pos as int + 8, T::unit() as int) == pad_spec((pos + 8) as int, T::unit() as int));
    assert(s =~= head + (gap + (img + rest)));
    assert(s.take(8) =~= head);
    assert(s.skip(8) =~= gap + (img + rest));
    assert(s.skip(8).skip(pad as int) =~= img + rest);
    assert(s.skip(8).skip(pad as int).take(img.len() as int) =~= img);
    assert(enc_seq_zero::<T>(vs, pos).len() == 8 + pad + img.len());
}

//@requires Vec::SerializeHelper<Zero>
pub proof fn lemma_rt_vec_zero<T: ZeroCopy + SerializeInner + DeserializeInner + TypeHash + AlignHash>(v: Vec<T>, pos: nat, rest: Seq<u8>)
    requires pad_spec((pos + 8) as int, T::unit() as int) >= 0,
    ensures <Vec<T> as DeserializeInner>::parse(v.enc(pos) + rest, pos) == PR::Val(v, v.enc(pos).len()),
{
    axiom_vec_of::<T>();
    assert(v@.len() == v.len() as nat);
    lemma_rt_seq_zero::<T>(v@, pos, rest);
}
//@endrequires

//@requires String::SerializeInner
impl RoundTrip for String {
    proof fn lemma_rt(&self, pos: nat, rest: Seq<u8>) {
        axiom_str_bytes();
        lemma_rt_seq_zero::<u8>(str_bytes(*self), pos, rest);
    }
}
//@endrequires

// =========================================================================
// &[T] (impls/slice.rs), C16: a slice reference is written as the vector of the
// same items. The fake vector over the slice's memory (`unsafe Vec::from_raw_parts`,
// never dropped) is replaced by an assumed function returning a vector with the
// same elements (recorded replacement); Kani's wfail_slice_* / same_as_vec_* lemmas
// check the real expression (no double free, same bytes).
// =========================================================================

#[verifier::external_body]
pub fn assumed_fake_vec<T>(s: &[T]) -> (r: Vec<T>)
    ensures r@ == s@,
{ unimplemented!() }

//@item epserde/src/impls/slice.rs props=C16,C13 name=SliceRef::SerializeInner optional <<impl<T: CopyType + SerializeInner + TypeHash + AlignHash> SerializeInner for &[T]>>
//@  replace <<Result<()>>> <<SResult<()>>>
//@  replace <<ser::SerializeInner::_serialize_inner>> <<SerializeInner::_serialize_inner>>
//@  replace <<unsafe { Vec::from_raw_parts(self.as_ptr() as *mut T, self.len(), self.len()) }>> <<assumed_fake_vec(*self)>>
//@  body_prefix
//@|    /// exactly the encoding of the vector holding the same items
//@|    open spec fn enc(&self, pos: nat) -> Seq<u8> { vec_of(self@).enc(pos) }
//@  sub <<fn _serialize_inner(&self, backend: &mut impl WriteWithNames) -> Result<()> {>>
//@  impl_arg
//@  ret r
//@  body_prefix
//@|        proof { axiom_vec_of::<T>(); assert(self@.len() == self.len() as nat); }
//@end

// ---- char (impls/prim.rs): written as its scalar value --------------------------------------
//@item epserde/src/impls/prim.rs props=C01,C13 name=char::SerializeInner optional <<impl SerializeInner for char {>>
//@  replace <<ser::Result>> <<SResult>>
//@  body_prefix
//@|    open spec fn enc(&self, pos: nat) -> Seq<u8> { u32_bytes(*self as u32) }
//@  sub <<fn _serialize_inner(&self, backend: &mut impl WriteWithNames) -> ser::Result<()> {>>
//@  impl_arg
//@  ret r
//@end

//@requires char::SerializeInner
impl RoundTrip for char {
    proof fn lemma_rt(&self, pos: nat, rest: Seq<u8>) {
        axiom_ne_bytes();
        axiom_char_of();
        assert((u32_bytes(*self as u32) + rest).take(4) =~= u32_bytes(*self as u32));
    }
}
//@endrequires

// =========================================================================
// arrays (impls/array.rs), serialization half: no length prefix; zero-copy elements
// are written as one padded memory image, deep elements one after the other
// =========================================================================

//@item epserde/src/impls/array.rs name=array::CopyType optional <<impl<T: CopyType, const N: usize> CopyType for [T; N] {>>
//@end

/// the unit of an array is the unit of its element (V-TYPEINFO verifies the real impl)
impl<T: MaxSizeOf, const N: usize> MaxSizeOf for [T; N] {
    open spec fn unit() -> nat { T::unit() }
    #[verifier::external_body]
    fn max_size_of() -> (r: usize) { unimplemented!() }
}

//@item epserde/src/impls/array.rs props=C01,C07,C13 name=array::SerializeInner optional <<impl<T: CopyType + SerializeInner + TypeHash + AlignHash, const N: usize> SerializeInner for [T; N]>>
//@  replace <<ser::Result>> <<SResult>>
//@  body_prefix
//@|    open spec fn enc(&self, pos: nat) -> Seq<u8> { <[T; N] as SerializeHelper<<T as CopyType>::Copy>>::enc_impl(self, pos) }
//@  sub <<fn _serialize_inner(&self, backend: &mut impl WriteWithNames) -> ser::Result<()> {>>
//@  impl_arg
//@  ret r
//@end

//@item epserde/src/impls/array.rs props=C01,C07,C13 name=array::SerializeHelper<Zero> optional <<impl<T: ZeroCopy + SerializeInner + TypeHash + AlignHash, const N: usize> SerializeHelper<Zero>>>
//@  replace <<ser::Result>> <<SResult>>
//@  body_prefix
//@|    open spec fn enc_impl(&self, pos: nat) -> Seq<u8> { enc_zero::<[T; N]>(*self, pos) }
//@  sub <<fn _serialize_inner(&self, backend: &mut impl WriteWithNames) -> ser::Result<()> {>>
//@  impl_arg
//@  ret r
//@end

//@item epserde/src/impls/array.rs props=C01,C13 name=array::SerializeHelper<Deep> optional <<impl<T: DeepCopy + SerializeInner, const N: usize> SerializeHelper<Deep> for [T; N] {>>
//@  replace <<ser::Result>> <<SResult>>
//@  replace <<backend.write(>> <<ww_write(backend, >>
//@  body_prefix
//@|    open spec fn enc_impl(&self, pos: nat) -> Seq<u8> { enc_items::<T>(self@, pos, N as nat) }
//@  sub <<fn _serialize_inner(&self, backend: &mut impl WriteWithNames) -> ser::Result<()> {>>
//@  impl_arg
//@  ret r
//@  body_prefix
//@|        let ghost sink0 = backend.sink();
//@|        let ghost pos0 = backend.wpos();
//@|        let ghost total = enc_items::<T>(self@, pos0, N as nat);
//@  loop_iter 1 it
//@  loop 1
//@|            invariant
//@|                backend.wf(),
//@|                backend.fin_sink() == old(backend).fin_sink(), backend.fin_wf() == old(backend).fin_wf(),
//@|                it.index@ <= N, self@.len() == N,
//@|                sink0 == old(backend).sink(), pos0 == old(backend).wpos(), pos0 <= sink0.len(),
//@|                total == enc_items::<T>(self@, pos0, N as nat),
//@|                sink0.len() + total.len() <= usize::MAX,
//@|                backend.sink() =~= sink0 + enc_items::<T>(self@, pos0, it.index@ as nat),
//@|                backend.wpos() == pos0 + enc_items::<T>(self@, pos0, it.index@ as nat).len(),
//@  loop_body_prefix 1
//@|            proof {
//@|                let i = it.index@ as nat;
//@|                let done = enc_items::<T>(self@, pos0, i);
//@|                let e = self@[i as int].enc(pos0 + done.len());
//@|                assert(enc_items::<T>(self@, pos0, i + 1) =~= done + e);
//@|                lemma_enc_items_prefix(self@, pos0, i + 1, N as nat);
//@|                assert((done + e).len() <= total.len());
//@|                assert forall|s2: Seq<u8>| is_prefix(sink0 + done, s2) && #[trigger] is_prefix(s2, sink0 + done + e)
//@|                    implies is_prefix(sink0, s2) && is_prefix(s2, sink0 + total) by {
//@|                    lemma_err_second(sink0, done, e, s2);
//@|                    assert(is_prefix(sink0 + (done + e), sink0 + total)) by {
//@|                        let a = sink0 + (done + e);
//@|                        let b = sink0 + total;
//@|                        assert(a =~= b.take(a.len() as int)) by {
//@|                            assert forall|j: int| 0 <= j < a.len() implies a[j] == b[j] by {
//@|                                if j >= sink0.len() {
//@|                                    assert((done + e)[j - sink0.len()] == total.take((done + e).len() as int)[j - sink0.len()]);
//@|                                }
//@|                            }
//@|                        }
//@|                    }
//@|                    lemma_prefix_trans(s2, sink0 + (done + e), sink0 + total);
//@|                }
//@|            }
//@  loop_body_suffix 1
//@|            proof {
//@|                let i = it.index@ as nat;
//@|                let done = enc_items::<T>(self@, pos0, i);
//@|                let e = self@[i as int].enc(pos0 + done.len());
//@|                assert(sink0 + done + e =~= sink0 + enc_items::<T>(self@, pos0, i + 1));
//@|            }
//@end
