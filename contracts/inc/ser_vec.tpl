// =========================================================================
// Vec<T> and Box<[T]>: the serialization dispatch (impls/vec.rs,
// impls/boxed_slice.rs) over SerializeHelper<Zero | Deep>, all verified
// (the helpers they call are under contract above).
// =========================================================================

//@item epserde/src/ser/mod.rs props=C01,C07,C13 name=SerializeHelper <<pub trait SerializeHelper<T: CopySelector> {>>
//@  replace <<Result<()>>> <<SResult<()>>>
//@  body_prefix
//@|    /// the published encoding of the sequence when written at stream offset `pos` (ghost)
//@|    spec fn enc_impl(&self, pos: nat) -> Seq<u8>;
//@  sub <<fn _serialize_inner(&self, backend: &mut impl WriteWithNames) -> Result<()>;>>
//@  impl_arg
//@  ret r
//@  spec
//@|        requires ser_pre::<ImplArg0>(self.enc_impl(old(backend).wpos()), old(backend)),
//@|        ensures ser_post::<ImplArg0>(self.enc_impl(old(backend).wpos()), old(backend), final(backend), r),
//@end

//@item epserde/src/impls/vec.rs props=C01,C07,C13 name=Vec::SerializeInner <<impl<T: CopyType + SerializeInner + TypeHash + AlignHash> SerializeInner for Vec<T>>>
//@  replace <<ser::Result>> <<SResult>>
//@  body_prefix
//@|    open spec fn enc(&self, pos: nat) -> Seq<u8> { <Vec<T> as SerializeHelper<<T as CopyType>::Copy>>::enc_impl(self, pos) }
//@  sub <<fn _serialize_inner(&self, backend: &mut impl WriteWithNames) -> ser::Result<()> {>>
//@  impl_arg
//@  ret r
//@end

//@item epserde/src/impls/vec.rs props=C01,C07,C13 name=Vec::SerializeHelper<Zero> <<impl<T: ZeroCopy + SerializeInner> SerializeHelper<Zero> for Vec<T> {>>
//@  replace <<ser::Result>> <<SResult>>
//@  body_prefix
//@|    open spec fn enc_impl(&self, pos: nat) -> Seq<u8> { enc_seq_zero::<T>(self@, pos) }
//@  sub <<fn _serialize_inner(&self, backend: &mut impl WriteWithNames) -> ser::Result<()> {>>
//@  impl_arg
//@  ret r
//@end

//@item epserde/src/impls/vec.rs props=C01,C13 name=Vec::SerializeHelper<Deep> <<impl<T: DeepCopy + SerializeInner> SerializeHelper<Deep> for Vec<T> {>>
//@  replace <<ser::Result>> <<SResult>>
//@  body_prefix
//@|    open spec fn enc_impl(&self, pos: nat) -> Seq<u8> { enc_seq_deep::<T>(self@, pos) }
//@  sub <<fn _serialize_inner(&self, backend: &mut impl WriteWithNames) -> ser::Result<()> {>>
//@  impl_arg
//@  ret r
//@end

//@item epserde/src/impls/boxed_slice.rs props=C01,C07,C13 name=BoxSlice::SerializeInner <<impl<T: CopyType + SerializeInner + TypeHash + AlignHash> SerializeInner for Box<[T]>>>
//@  replace <<ser::Result>> <<SResult>>
//@  body_prefix
//@|    open spec fn enc(&self, pos: nat) -> Seq<u8> { <Box<[T]> as SerializeHelper<<T as CopyType>::Copy>>::enc_impl(self, pos) }
//@  sub <<fn _serialize_inner(&self, backend: &mut impl WriteWithNames) -> ser::Result<()> {>>
//@  impl_arg
//@  ret r
//@end

//@item epserde/src/impls/boxed_slice.rs props=C01,C07,C13 name=BoxSlice::SerializeHelper<Zero> <<impl<T: ZeroCopy + SerializeInner> SerializeHelper<Zero> for Box<[T]> {>>
//@  replace <<ser::Result>> <<SResult>>
//@  body_prefix
//@|    open spec fn enc_impl(&self, pos: nat) -> Seq<u8> { enc_seq_zero::<T>(self@, pos) }
//@  sub <<fn _serialize_inner(&self, backend: &mut impl WriteWithNames) -> ser::Result<()> {>>
//@  impl_arg
//@  ret r
//@end

//@item epserde/src/impls/boxed_slice.rs props=C01,C13 name=BoxSlice::SerializeHelper<Deep> <<impl<T: DeepCopy + SerializeInner> SerializeHelper<Deep> for Box<[T]> {>>
//@  replace <<ser::Result>> <<SResult>>
//@  body_prefix
//@|    open spec fn enc_impl(&self, pos: nat) -> Seq<u8> { enc_seq_deep::<T>(self@, pos) }
//@  sub <<fn _serialize_inner(&self, backend: &mut impl WriteWithNames) -> ser::Result<()> {>>
//@  impl_arg
//@  ret r
//@end

/// C01 for vectors and boxed slices of deep-copy elements, at any nesting depth:
/// the instance of the round-trip law, by the sequence lemma and extensionality
//@requires Vec::SerializeHelper<Deep>
impl<T: DeepCopy + RoundTrip + TypeHash + AlignHash> RoundTrip for Vec<T> {
    proof fn lemma_rt(&self, pos: nat, rest: Seq<u8>) {
        axiom_vec_of::<T>();
        assert(self@.len() == self.len() as nat);
        lemma_rt_seq_deep::<T>(self@, pos, rest);
    }
}
//@endrequires
//@requires BoxSlice::SerializeHelper<Deep>
impl<T: DeepCopy + RoundTrip + TypeHash + AlignHash> RoundTrip for Box<[T]> {
    proof fn lemma_rt(&self, pos: nat, rest: Seq<u8>) {
        axiom_box_of::<T>();
        assert(self@.len() == self.len() as nat);
        lemma_rt_seq_deep::<T>(self@, pos, rest);
    }
}
//@endrequires
