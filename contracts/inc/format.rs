// ---- format grammar (written from the format description, contracts/FORMAT.md) ----

/// Result of parsing a value of type T from a byte sequence that starts at
/// stream offset `pos`: the value and the number of bytes it occupies, a
/// foreign tag, or "the sequence ends before the value does".
pub enum PR<T> {
    Val(T, nat),
    BadTag(usize),
    Short,
}

/// sequencing: parse A then continue at the advanced offset
pub open spec fn pr_then<A, B>(a: PR<A>, f: spec_fn(A, nat) -> PR<B>) -> PR<B> {
    match a {
        PR::Val(v, n) => f(v, n),
        PR::BadTag(t) => PR::BadTag(t),
        PR::Short => PR::Short,
    }
}

/// native-endian decoding of fixed-width primitives (uninterpreted: the
/// bit-level meaning is checked by the Kani lemmas rt_full_uints & co.)
pub open spec fn u8_of(s: Seq<u8>) -> u8 { s[0] }
pub uninterp spec fn u32_of(s: Seq<u8>) -> u32;
pub uninterp spec fn usize_of(s: Seq<u8>) -> usize;

pub open spec fn parse_fixed<T>(s: Seq<u8>, n: nat, of: spec_fn(Seq<u8>) -> T) -> PR<T> {
    if s.len() < n { PR::Short } else { PR::Val(of(s.take(n as int)), n) }
}
