// format grammar (filled in later)
