// =========================================================================
// errors and traits (verbatim from /repo)
// =========================================================================

//@item epserde/src/ser/mod.rs name=ser::Error <<pub enum Error {>>
//@  replace <<pub enum Error>> <<pub enum SError>>
//@  replace <<FileOpenError(std::io::Error),>> <<>>
//@end

//@item epserde/src/ser/mod.rs name=ser::Result <<pub type Result<T> = core::result::Result<T, Error>;>>
//@  replace <<Result<T> = core::result::Result<T, Error>>> <<SResult<T> = core::result::Result<T, SError>>>
//@end

//@item epserde/src/ser/write.rs props=C07,C13 name=WriteNoStd <<pub trait WriteNoStd {>>
//@  replace <<ser::Result>> <<SResult>>
//@  body_prefix
//@|    /// the bytes the underlying sink has accepted so far (ghost)
//@|    spec fn sink(&self) -> Seq<u8>;
//@|    /// representation invariant
//@|    spec fn wf(&self) -> bool;
//@|    /// the position a position-tracking writer reports (ghost)
//@|    spec fn wpos(&self) -> nat;
//@|    /// (prophetic ghost) for a wrapper around a borrowed sink: the contents and the
//@|    /// invariant of that sink at the moment the wrapper is released - what the owner
//@|    /// of the sink gets back. No operation of a writer changes them.
//@|    #[verifier::prophetic]
//@|    spec fn fin_sink(&self) -> Seq<u8>;
//@|    #[verifier::prophetic]
//@|    spec fn fin_wf(&self) -> bool;
//@  sub <<fn write_all(&mut self, buf: &[u8]) -> ser::Result<()>;>>
//@  ret r
//@  spec
//@|        requires old(self).wf(),
//@|            // streams are shorter than the address space (machine arithmetic made explicit)
//@|            old(self).sink().len() + buf@.len() <= usize::MAX,
//@|        ensures final(self).wf(),
//@|            final(self).fin_sink() == old(self).fin_sink(), final(self).fin_wf() == old(self).fin_wf(),
//@|            match r {
//@|                Ok(()) => final(self).sink() =~= old(self).sink() + buf@
//@|                    && final(self).wpos() == old(self).wpos() + buf@.len(),
//@|                Err(e) => e is WriteError
//@|                    && is_prefix(old(self).sink(), final(self).sink())
//@|                    && is_prefix(final(self).sink(), old(self).sink() + buf@)
//@|                    && final(self).wpos() == old(self).wpos(),
//@|            },
//@  sub <<fn flush(&mut self) -> ser::Result<()>;>>
//@  ret r
//@  spec
//@|        requires old(self).wf(),
//@|        ensures final(self).wf(), final(self).sink() == old(self).sink(), final(self).wpos() == old(self).wpos(),
//@|            final(self).fin_sink() == old(self).fin_sink(), final(self).fin_wf() == old(self).fin_wf(),
//@|            match r { Ok(()) => true, Err(e) => e is WriteError },
//@end

//@item epserde/src/ser/write.rs props=C07 name=WriteWithPos <<pub trait WriteWithPos: WriteNoStd {>>
//@  sub <<fn pos(&self) -> usize;>>
//@  ret r
//@  spec
//@|        requires self.wf(),
//@|        ensures r as nat == self.wpos(),
//@end

// =========================================================================
// the position-tracking writer
// =========================================================================

//@item epserde/src/ser/write.rs name=WriterWithPos <<pub struct WriterWithPos<'a, F: WriteNoStd> {>>
//@end

//@item epserde/src/ser/write.rs props=C07 name=WriterWithPos::inherent <<impl<'a, F: WriteNoStd> WriterWithPos<'a, F> {>>
//@  sub <<pub fn new(backend: &'a mut F) -> Self {>>
//@  ret r
//@  spec
//@|        requires old(backend).wf(),
//@|        ensures r.wf(), r.sink() == old(backend).sink(), r.wpos() == 0,
//@|            r.fin_sink() == final(backend).sink(), r.fin_wf() == final(backend).wf(),
//@end

//@item epserde/src/ser/write.rs props=C07,C13 name=WriterWithPos::WriteNoStd <<impl<F: WriteNoStd> WriteNoStd for WriterWithPos<'_, F> {>>
//@  replace <<ser::Result>> <<SResult>>
//@  body_prefix
//@|    closed spec fn sink(&self) -> Seq<u8> { self.backend.sink() }
//@|    /// the reported position never exceeds what the sink has accepted
//@|    closed spec fn wf(&self) -> bool { self.backend.wf() && self.pos as nat <= self.backend.sink().len() }
//@|    closed spec fn wpos(&self) -> nat { self.pos as nat }
//@|    #[verifier::prophetic]
//@|    closed spec fn fin_sink(&self) -> Seq<u8> { final(self.backend).sink() }
//@|    #[verifier::prophetic]
//@|    closed spec fn fin_wf(&self) -> bool { final(self.backend).wf() }
//@  sub <<fn write_all(&mut self, buf: &[u8]) -> ser::Result<()> {>>
//@  ret r
//@  sub <<fn flush(&mut self) -> ser::Result<()> {>>
//@  ret r
//@end

//@item epserde/src/ser/write.rs props=C07 name=WriterWithPos::WriteWithPos <<impl<F: WriteNoStd> WriteWithPos for WriterWithPos<'_, F> {>>
//@  sub <<fn pos(&self) -> usize {>>
//@  ret r
//@end

// =========================================================================
// WriteWithNames (align, write_bytes: default methods) and SerializeInner
// =========================================================================

// -------------------------------------------------------------------------
// SerializeInner <-> WriteWithNames: the two traits mention each other
// (`WriteWithNames::write<V: SerializeInner>`, `write_bytes<V: SerializeInner + ..>`,
// `SerializeInner::_serialize_inner(&self, &mut impl WriteWithNames)`), which
// Verus rejects as a trait cycle. The cycle is cut on the WriteWithNames side:
//   * `write` leaves the trait and is extracted as the free function `ww_write`
//     (its default body, verbatim; `self` renamed to `self_`); call sites
//     `backend.write(` become `ww_write(backend, `. Writers that override
//     `write` (SchemaWriter) are outside this unit (Kani, C18).
//   * the bound of `write_bytes` loses `SerializeInner` (the default body does
//     not use it).
// -------------------------------------------------------------------------

//@item epserde/src/ser/write_with_names.rs props=C01,C07,C13 name=WriteWithNames <<pub trait WriteWithNames: WriteWithPos + Sized {>>
//@  replace <<Result<()>>> <<SResult<()>>>
//@  replace <<V: SerializeInner + ZeroCopy>> <<V: ZeroCopy>>
//@  drop <<fn write<V: SerializeInner>(&mut self, _field_name: &str, value: &V) -> Result<()> {>>
//@  sub <<fn align<V: MaxSizeOf>(&mut self) -> Result<()> {>>
//@  ret r
//@  spec
//@|        requires old(self).wf(),
//@|            old(self).wpos() <= old(self).sink().len(),
//@|            old(self).sink().len() + pad_spec(old(self).wpos() as int, V::unit() as int) <= usize::MAX,
//@|        ensures final(self).wf(),
//@|            final(self).fin_sink() == old(self).fin_sink(), final(self).fin_wf() == old(self).fin_wf(),
//@|            ({
//@|                let pad = pad_spec(old(self).wpos() as int, V::unit() as int) as nat;
//@|                match r {
//@|                    // exactly the minimal zero gap; the position ends on a multiple of the unit
//@|                    Ok(()) => final(self).sink() =~= old(self).sink() + zeros(pad)
//@|                        && final(self).wpos() == old(self).wpos() + pad,
//@|                    // on failure nothing but (part of) the zero gap was handed to the sink
//@|                    Err(e) => e is WriteError
//@|                        && is_prefix(old(self).sink(), final(self).sink())
//@|                        && is_prefix(final(self).sink(), old(self).sink() + zeros(pad)),
//@|                }
//@|            }),
//@  body_prefix
//@|        let ghost sink0 = self.sink();
//@|        let ghost wpos0 = self.wpos();
//@  loop_iter 1 it
//@  loop 1
//@|            invariant
//@|                self.wf(),
//@|                self.fin_sink() == old(self).fin_sink(), self.fin_wf() == old(self).fin_wf(),
//@|                padding as int == pad_spec(wpos0 as int, V::unit() as int),
//@|                padding < V::unit(),
//@|                sink0.len() + padding <= usize::MAX,
//@|                self.sink() =~= sink0 + zeros(it.index@ as nat),
//@|                self.wpos() == wpos0 + it.index@,
//@|                sink0 == old(self).sink(), wpos0 == old(self).wpos(),
//@  loop_body_prefix 1
//@|            proof {
//@|                let i = it.index@ as nat;
//@|                assert forall|s2: Seq<u8>| #[trigger] is_prefix(s2, sink0 + zeros(i) + seq![0u8]) && is_prefix(sink0 + zeros(i), s2)
//@|                    implies is_prefix(sink0, s2) && is_prefix(s2, sink0 + zeros(padding as nat)) by {
//@|                    lemma_gap_prefix(sink0, i, padding as nat, s2);
//@|                }
//@|                assert(self.sink() + seq![0u8] =~= sink0 + zeros(i) + seq![0u8]);
//@|            }
//@  loop_body_suffix 1
//@|            proof {
//@|                assert(zeros(it.index@ as nat) + seq![0u8] =~= zeros((it.index@ + 1) as nat));
//@|            }
//@  sub <<fn write_bytes<V: SerializeInner + ZeroCopy>(&mut self, value: &[u8]) -> Result<()> {>>
//@  ret r
//@  spec
//@|        requires old(self).wf(),
//@|            old(self).sink().len() + value@.len() <= usize::MAX,
//@|        ensures final(self).wf(),
//@|            final(self).fin_sink() == old(self).fin_sink(), final(self).fin_wf() == old(self).fin_wf(),
//@|            match r {
//@|                Ok(()) => final(self).sink() =~= old(self).sink() + value@
//@|                    && final(self).wpos() == old(self).wpos() + value@.len(),
//@|                Err(e) => e is WriteError
//@|                    && is_prefix(old(self).sink(), final(self).sink())
//@|                    && is_prefix(final(self).sink(), old(self).sink() + value@),
//@|            },
//@end


/// what `_serialize_inner` (and every helper) promises, given the encoding `e`
/// of the value at the writer's current position: on success exactly `e` was
/// appended; on failure (C13) the sink holds the old contents followed by a
/// prefix of `e`, and the error is a WriteError
#[verifier::prophetic]
pub open spec fn ser_post<W: WriteWithNames>(e: Seq<u8>, pre: &W, post: &W, r: SResult<()>) -> bool {
    post.wf() && post.fin_sink() == pre.fin_sink() && post.fin_wf() == pre.fin_wf() && match r {
        Ok(()) => post.sink() =~= pre.sink() + e
            && post.wpos() == pre.wpos() + e.len(),
        Err(err) => err is WriteError
            && is_prefix(pre.sink(), post.sink())
            && is_prefix(post.sink(), pre.sink() + e),
    }
}

/// streams are shorter than the address space (machine arithmetic made explicit)
pub open spec fn ser_pre<W: WriteWithNames>(e: Seq<u8>, pre: &W) -> bool {
    pre.wf() && pre.wpos() <= pre.sink().len() && pre.sink().len() + e.len() <= usize::MAX
}

//@item epserde/src/ser/mod.rs props=C01,C07,C13 name=SerializeInner <<pub trait SerializeInner {>>
//@  replace <<Result<()>>> <<SResult<()>>>
//@  body_prefix
//@|    /// the published encoding of `self` when written at stream offset `pos` (ghost)
//@|    spec fn enc(&self, pos: nat) -> Seq<u8>;
//@  sub <<fn _serialize_inner(&self, backend: &mut impl WriteWithNames) -> Result<()>;>>
//@  impl_arg
//@  ret r
//@  spec
//@|        requires ser_pre::<ImplArg0>(self.enc(old(backend).wpos()), old(backend)),
//@|        ensures ser_post::<ImplArg0>(self.enc(old(backend).wpos()), old(backend), final(backend), r),
//@end

//@item epserde/src/ser/write_with_names.rs props=C01,C13 name=WriteWithNames::write <<fn write<V: SerializeInner>(&mut self, _field_name: &str, value: &V) -> Result<()> {>>
//@  replace <<Result<()>>> <<SResult<()>>>
//@  replace <<fn write<V: SerializeInner>(&mut self,>> <<fn ww_write<W: WriteWithNames, V: SerializeInner>(self_: &mut W,>>
//@  replace <<(self)>> <<(self_)>>
//@  ret r
//@  spec
//@|        requires ser_pre::<W>(value.enc(old(self_).wpos()), old(self_)),
//@|        ensures ser_post::<W>(value.enc(old(self_).wpos()), old(self_), final(self_), r),
//@end

//@item epserde/src/ser/write_with_names.rs props=C07 name=WriterWithPos::WriteWithNames <<impl<F: WriteNoStd> WriteWithNames for WriterWithPos<'_, F> {}>>
//@end

