// =========================================================================
// implementations from impls/prim.rs
// =========================================================================

//@item epserde/src/impls/prim.rs props=C01,C02 name=bool::DeserializeInner <<impl DeserializeInner for bool {>>
//@  replace <<deser::Result>> <<Result>>
//@  body_prefix
//@|    open spec fn parse(s: Seq<u8>, pos: nat) -> PR<Self> {
//@|        if s.len() < 1 { PR::Short } else { PR::Val(u8_of(s.take(1)) != 0, 1) }
//@|    }
//@|    open spec fn eps_rel<'a>(d: Self, v: Self) -> bool { d == v }
//@|    proof fn lemma_prefix(s: Seq<u8>, pos: nat, k: nat) {
//@|        if k >= 1 { assert(s.take(k as int).take(1) =~= s.take(1)); }
//@|    }
//@  sub <<fn _deserialize_full_inner(backend: &mut impl ReadWithPos) -> deser::Result<bool> {>>
//@  impl_arg
//@  ret r
//@  sub <<fn _deserialize_eps_inner<'a>(>>
//@  ret r
//@end


//@item epserde/src/impls/prim.rs props=C01,C02 name=unit::DeserializeInner <<impl DeserializeInner for () {>>
//@  replace <<deser::Result>> <<Result>>
//@  body_prefix
//@|    open spec fn parse(s: Seq<u8>, pos: nat) -> PR<Self> { PR::Val((), 0) }
//@|    open spec fn eps_rel<'a>(d: Self, v: Self) -> bool { true }
//@|    proof fn lemma_prefix(s: Seq<u8>, pos: nat, k: nat) {}
//@  sub <<fn _deserialize_full_inner(_backend: &mut impl ReadWithPos) -> deser::Result<Self> {>>
//@  impl_arg
//@  ret r
//@  sub <<fn _deserialize_eps_inner<'a>(>>
//@  ret r
//@end

//@item epserde/src/impls/prim.rs props=C01,C02 name=PhantomData::DeserializeInner <<impl<T: ?Sized> DeserializeInner for PhantomData<T> {>>
//@  replace <<deser::Result>> <<Result>>
//@  replace <<PhantomData>> <<core::marker::PhantomData>>
//@  body_prefix
//@|    open spec fn parse(s: Seq<u8>, pos: nat) -> PR<Self> { PR::Val(core::marker::PhantomData, 0) }
//@|    open spec fn eps_rel<'a>(d: Self, v: Self) -> bool { true }
//@|    proof fn lemma_prefix(s: Seq<u8>, pos: nat, k: nat) {}
//@  sub <<fn _deserialize_full_inner(_backend: &mut impl ReadWithPos) -> deser::Result<Self> {>>
//@  impl_arg
//@  ret r
//@  sub <<fn _deserialize_eps_inner<'a>(>>
//@  ret r
//@end

/// one-byte tag, then the payload of the selected variant
pub open spec fn parse_payload<T: DeserializeInner, S>(s: Seq<u8>, pos: nat, wrap: spec_fn(T) -> S) -> PR<S> {
    match T::parse(s.skip(1), pos + 1) {
        PR::Val(v, n) => PR::Val(wrap(v), n + 1),
        PR::BadTag(t) => PR::BadTag(t),
        PR::Short => PR::Short,
    }
}

/// prefix behaviour of "one tag byte then a payload"
proof fn lemma_payload_prefix<T: DeserializeInner, S>(s: Seq<u8>, pos: nat, k: nat, wrap: spec_fn(T) -> S)
    requires s.len() >= 1, parse_payload::<T, S>(s, pos, wrap) is Val, 1 <= k <= s.len(),
    ensures parse_payload::<T, S>(s, pos, wrap)->Val_1 <= s.len(),
        k < parse_payload::<T, S>(s, pos, wrap)->Val_1 ==> parse_payload::<T, S>(s.take(k as int), pos, wrap) is Short,
        k >= parse_payload::<T, S>(s, pos, wrap)->Val_1 ==> parse_payload::<T, S>(s.take(k as int), pos, wrap) == parse_payload::<T, S>(s, pos, wrap),
{
    T::lemma_prefix(s.skip(1), pos + 1, (k - 1) as nat);
    assert(s.take(k as int).skip(1) =~= s.skip(1).take(k - 1));
}

//@item epserde/src/impls/prim.rs props=C01,C02,C11,C15 name=Option::DeserializeInner <<impl<T: DeserializeInner> DeserializeInner for Option<T> {>>
//@  replace <<deser::Result>> <<Result>>
//@  replace <<deser::Error>> <<Error>>
//@  body_prefix
//@|    /// tag 0 = None, tag 1 = Some(payload); every other tag is foreign
//@|    open spec fn parse(s: Seq<u8>, pos: nat) -> PR<Self> {
//@|        if s.len() < 1 { PR::Short }
//@|        else if s[0] == 0 { PR::Val(None, 1) }
//@|        else if s[0] == 1 { parse_payload::<T, Self>(s, pos, |v: T| Some(v)) }
//@|        else { PR::BadTag(s[0] as usize) }
//@|    }
//@|    open spec fn eps_rel<'a>(d: Option<<T as DeserializeInner>::DeserType<'a>>, v: Self) -> bool {
//@|        match (d, v) {
//@|            (None, None) => true,
//@|            (Some(a), Some(b)) => T::eps_rel(a, b),
//@|            _ => false,
//@|        }
//@|    }
//@|    proof fn lemma_prefix(s: Seq<u8>, pos: nat, k: nat) {
//@|        let kk = if k >= 1 { k } else { 1 };
//@|        if k >= 1 { assert(s.take(k as int)[0] == s[0]); }
//@|        if s[0] == 1 { lemma_payload_prefix::<T, Self>(s, pos, kk, |v: T| Some(v)); }
//@|    }
//@  sub <<fn _deserialize_full_inner(backend: &mut impl ReadWithPos) -> deser::Result<Self> {>>
//@  impl_arg
//@  ret r
//@  sub <<fn _deserialize_eps_inner<'a>(>>
//@  ret r
//@end

// =========================================================================
// implementations from impls/stdlib.rs
// =========================================================================

//@item epserde/src/impls/stdlib.rs props=C01,C02,C11,C15 name=Bound::DeserializeInner <<impl<T: DeserializeInner> DeserializeInner for core::ops::Bound<T> {>>
//@  replace <<deser::Result>> <<Result>>
//@  replace <<deser::Error>> <<Error>>
//@  body_prefix
//@|    /// tag 0 = Unbounded, 1 = Included(payload), 2 = Excluded(payload)
//@|    open spec fn parse(s: Seq<u8>, pos: nat) -> PR<Self> {
//@|        if s.len() < 1 { PR::Short }
//@|        else if s[0] == 0 { PR::Val(core::ops::Bound::Unbounded, 1) }
//@|        else if s[0] == 1 { parse_payload::<T, Self>(s, pos, |v: T| core::ops::Bound::Included(v)) }
//@|        else if s[0] == 2 { parse_payload::<T, Self>(s, pos, |v: T| core::ops::Bound::Excluded(v)) }
//@|        else { PR::BadTag(s[0] as usize) }
//@|    }
//@|    open spec fn eps_rel<'a>(d: core::ops::Bound<<T as DeserializeInner>::DeserType<'a>>, v: Self) -> bool {
//@|        match (d, v) {
//@|            (core::ops::Bound::Unbounded, core::ops::Bound::Unbounded) => true,
//@|            (core::ops::Bound::Included(a), core::ops::Bound::Included(b)) => T::eps_rel(a, b),
//@|            (core::ops::Bound::Excluded(a), core::ops::Bound::Excluded(b)) => T::eps_rel(a, b),
//@|            _ => false,
//@|        }
//@|    }
//@|    proof fn lemma_prefix(s: Seq<u8>, pos: nat, k: nat) {
//@|        let kk = if k >= 1 { k } else { 1 };
//@|        if k >= 1 { assert(s.take(k as int)[0] == s[0]); }
//@|        if s[0] == 1 { lemma_payload_prefix::<T, Self>(s, pos, kk, |v: T| core::ops::Bound::Included(v)); }
//@|        if s[0] == 2 { lemma_payload_prefix::<T, Self>(s, pos, kk, |v: T| core::ops::Bound::Excluded(v)); }
//@|    }
//@  sub <<fn _deserialize_full_inner(backend: &mut impl ReadWithPos) -> deser::Result<Self> {>>
//@  impl_arg
//@  ret r
//@  sub <<fn _deserialize_eps_inner<'a>(>>
//@  ret r
//@end

//@item epserde/src/impls/stdlib.rs props=C01,C02,C11,C15 name=ControlFlow::DeserializeInner <<impl<B: DeserializeInner, C: DeserializeInner> DeserializeInner for core::ops::ControlFlow<B, C> {>>
//@  replace <<deser::Result>> <<Result>>
//@  replace <<deser::Error>> <<Error>>
//@  body_prefix
//@|    /// tag 0 = Break(payload), tag 1 = Continue(payload)
//@|    open spec fn parse(s: Seq<u8>, pos: nat) -> PR<Self> {
//@|        if s.len() < 1 { PR::Short }
//@|        else if s[0] == 0 { parse_payload::<B, Self>(s, pos, |v: B| core::ops::ControlFlow::Break(v)) }
//@|        else if s[0] == 1 { parse_payload::<C, Self>(s, pos, |v: C| core::ops::ControlFlow::Continue(v)) }
//@|        else { PR::BadTag(s[0] as usize) }
//@|    }
//@|    open spec fn eps_rel<'a>(d: core::ops::ControlFlow<<B as DeserializeInner>::DeserType<'a>, <C as DeserializeInner>::DeserType<'a>>, v: Self) -> bool {
//@|        match (d, v) {
//@|            (core::ops::ControlFlow::Break(a), core::ops::ControlFlow::Break(b)) => B::eps_rel(a, b),
//@|            (core::ops::ControlFlow::Continue(a), core::ops::ControlFlow::Continue(b)) => C::eps_rel(a, b),
//@|            _ => false,
//@|        }
//@|    }
//@|    proof fn lemma_prefix(s: Seq<u8>, pos: nat, k: nat) {
//@|        let kk = if k >= 1 { k } else { 1 };
//@|        if k >= 1 { assert(s.take(k as int)[0] == s[0]); }
//@|        if s[0] == 0 { lemma_payload_prefix::<B, Self>(s, pos, kk, |v: B| core::ops::ControlFlow::Break(v)); }
//@|        if s[0] == 1 { lemma_payload_prefix::<C, Self>(s, pos, kk, |v: C| core::ops::ControlFlow::Continue(v)); }
//@|    }
//@  sub <<fn _deserialize_full_inner(backend: &mut impl ReadWithPos) -> deser::Result<Self> {>>
//@  impl_arg
//@  ret r
//@  sub <<fn _deserialize_eps_inner<'a>(>>
//@  ret r
//@end


// ---- copy-kind marker traits (verbatim; needed by the range impls) ----------

//@item epserde/src/traits/copy_type.rs name=CopySelector <<pub trait CopySelector {>>
//@end
//@item epserde/src/traits/copy_type.rs name=Zero <<pub struct Zero {}>>
//@end
//@item epserde/src/traits/copy_type.rs name=Zero::CopySelector <<impl CopySelector for Zero {>>
//@end
//@item epserde/src/traits/copy_type.rs name=Deep <<pub struct Deep {}>>
//@end
//@item epserde/src/traits/copy_type.rs name=Deep::CopySelector <<impl CopySelector for Deep {>>
//@end
//@item epserde/src/traits/copy_type.rs name=CopyType <<pub trait CopyType: Sized {>>
//@end
//@item epserde/src/traits/copy_type.rs name=ZeroCopy <<pub trait ZeroCopy: CopyType<Copy = Zero> + Copy + MaxSizeOf + 'static {}>>
//@end
//@item epserde/src/traits/copy_type.rs name=ZeroCopy::blanket <<impl<T: CopyType<Copy = Zero> + Copy + MaxSizeOf + 'static> ZeroCopy for T {}>>
//@end
//@item epserde/src/traits/copy_type.rs name=DeepCopy <<pub trait DeepCopy: CopyType<Copy = Deep> {}>>
//@end
//@item epserde/src/traits/copy_type.rs name=DeepCopy::blanket <<impl<T: CopyType<Copy = Deep>> DeepCopy for T {}>>
//@end

/// two fields one after the other
pub open spec fn parse_pair<A: DeserializeInner, B: DeserializeInner, S>(s: Seq<u8>, pos: nat, mk: spec_fn(A, B) -> S) -> PR<S> {
    match A::parse(s, pos) {
        PR::Val(a, n) => match B::parse(s.skip(n as int), pos + n) {
            PR::Val(b, m) => PR::Val(mk(a, b), n + m),
            PR::BadTag(t) => PR::BadTag(t),
            PR::Short => PR::Short,
        },
        PR::BadTag(t) => PR::BadTag(t),
        PR::Short => PR::Short,
    }
}
pub open spec fn parse_one<A: DeserializeInner, S>(s: Seq<u8>, pos: nat, mk: spec_fn(A) -> S) -> PR<S> {
    match A::parse(s, pos) {
        PR::Val(a, n) => PR::Val(mk(a), n),
        PR::BadTag(t) => PR::BadTag(t),
        PR::Short => PR::Short,
    }
}

proof fn lemma_pair_prefix<A: DeserializeInner, B: DeserializeInner, S>(s: Seq<u8>, pos: nat, k: nat, mk: spec_fn(A, B) -> S)
    requires parse_pair::<A, B, S>(s, pos, mk) is Val, k <= s.len(),
    ensures parse_pair::<A, B, S>(s, pos, mk)->Val_1 <= s.len(),
        k < parse_pair::<A, B, S>(s, pos, mk)->Val_1 ==> parse_pair::<A, B, S>(s.take(k as int), pos, mk) is Short,
        k >= parse_pair::<A, B, S>(s, pos, mk)->Val_1 ==> parse_pair::<A, B, S>(s.take(k as int), pos, mk) == parse_pair::<A, B, S>(s, pos, mk),
{
    A::lemma_prefix(s, pos, k);
    let n = A::parse(s, pos)->Val_1;
    B::lemma_prefix(s.skip(n as int), pos + n, if k >= n { (k - n) as nat } else { 0 });
    if k >= n {
        assert(s.take(k as int).skip(n as int) =~= s.skip(n as int).take(k - n));
    }
}
proof fn lemma_one_prefix<A: DeserializeInner, S>(s: Seq<u8>, pos: nat, k: nat, mk: spec_fn(A) -> S)
    requires parse_one::<A, S>(s, pos, mk) is Val, k <= s.len(),
    ensures parse_one::<A, S>(s, pos, mk)->Val_1 <= s.len(),
        k < parse_one::<A, S>(s, pos, mk)->Val_1 ==> parse_one::<A, S>(s.take(k as int), pos, mk) is Short,
        k >= parse_one::<A, S>(s, pos, mk)->Val_1 ==> parse_one::<A, S>(s.take(k as int), pos, mk) == parse_one::<A, S>(s, pos, mk),
{
    A::lemma_prefix(s, pos, k);
}

//@item epserde/src/impls/stdlib.rs props=C01,C02,C11 name=Range::DeserializeInner <<impl<Idx: ZeroCopy + DeserializeInner> DeserializeInner for core::ops::Range<Idx> {>>
//@  replace <<deser::Result>> <<Result>>
//@  body_prefix
//@|    /// start then end, each encoded as a field
//@|    open spec fn parse(s: Seq<u8>, pos: nat) -> PR<Self> {
//@|        parse_pair::<Idx, Idx, Self>(s, pos, |a: Idx, b: Idx| core::ops::Range { start: a, end: b })
//@|    }
//@|    open spec fn eps_rel<'a>(d: core::ops::Range<<Idx as DeserializeInner>::DeserType<'a>>, v: Self) -> bool {
//@|        Idx::eps_rel(d.start, v.start) && Idx::eps_rel(d.end, v.end)
//@|    }
//@|    proof fn lemma_prefix(s: Seq<u8>, pos: nat, k: nat) {
//@|        lemma_pair_prefix::<Idx, Idx, Self>(s, pos, k, |a: Idx, b: Idx| core::ops::Range { start: a, end: b });
//@|    }
//@  sub <<fn _deserialize_full_inner(backend: &mut impl ReadWithPos) -> deser::Result<Self> {>>
//@  impl_arg
//@  ret r
//@  sub <<fn _deserialize_eps_inner<'a>(>>
//@  ret r
//@end


//@item epserde/src/impls/stdlib.rs props=C01,C02,C11 name=RangeFrom::DeserializeInner <<impl<Idx: ZeroCopy + DeserializeInner> DeserializeInner for core::ops::RangeFrom<Idx> {>>
//@  replace <<deser::Result>> <<Result>>
//@  body_prefix
//@|    open spec fn parse(s: Seq<u8>, pos: nat) -> PR<Self> {
//@|        parse_one::<Idx, Self>(s, pos, |a: Idx| core::ops::RangeFrom { start: a })
//@|    }
//@|    open spec fn eps_rel<'a>(d: core::ops::RangeFrom<<Idx as DeserializeInner>::DeserType<'a>>, v: Self) -> bool {
//@|        Idx::eps_rel(d.start, v.start)
//@|    }
//@|    proof fn lemma_prefix(s: Seq<u8>, pos: nat, k: nat) {
//@|        lemma_one_prefix::<Idx, Self>(s, pos, k, |a: Idx| core::ops::RangeFrom { start: a });
//@|    }
//@  sub <<fn _deserialize_full_inner(backend: &mut impl ReadWithPos) -> deser::Result<Self> {>>
//@  impl_arg
//@  ret r
//@  sub <<fn _deserialize_eps_inner<'a>(>>
//@  ret r
//@end

//@item epserde/src/impls/stdlib.rs props=C01,C02,C11 name=RangeTo::DeserializeInner <<impl<Idx: ZeroCopy + DeserializeInner> DeserializeInner for core::ops::RangeTo<Idx> {>>
//@  replace <<deser::Result>> <<Result>>
//@  body_prefix
//@|    open spec fn parse(s: Seq<u8>, pos: nat) -> PR<Self> {
//@|        parse_one::<Idx, Self>(s, pos, |a: Idx| core::ops::RangeTo { end: a })
//@|    }
//@|    open spec fn eps_rel<'a>(d: core::ops::RangeTo<<Idx as DeserializeInner>::DeserType<'a>>, v: Self) -> bool {
//@|        Idx::eps_rel(d.end, v.end)
//@|    }
//@|    proof fn lemma_prefix(s: Seq<u8>, pos: nat, k: nat) {
//@|        lemma_one_prefix::<Idx, Self>(s, pos, k, |a: Idx| core::ops::RangeTo { end: a });
//@|    }
//@  sub <<fn _deserialize_full_inner(backend: &mut impl ReadWithPos) -> deser::Result<Self> {>>
//@  impl_arg
//@  ret r
//@  sub <<fn _deserialize_eps_inner<'a>(>>
//@  ret r
//@end

//@item epserde/src/impls/stdlib.rs props=C01,C02,C11 name=RangeToInclusive::DeserializeInner <<impl<Idx: ZeroCopy + DeserializeInner> DeserializeInner for core::ops::RangeToInclusive<Idx> {>>
//@  replace <<deser::Result>> <<Result>>
//@  body_prefix
//@|    open spec fn parse(s: Seq<u8>, pos: nat) -> PR<Self> {
//@|        parse_one::<Idx, Self>(s, pos, |a: Idx| core::ops::RangeToInclusive { end: a })
//@|    }
//@|    open spec fn eps_rel<'a>(d: core::ops::RangeToInclusive<<Idx as DeserializeInner>::DeserType<'a>>, v: Self) -> bool {
//@|        Idx::eps_rel(d.end, v.end)
//@|    }
//@|    proof fn lemma_prefix(s: Seq<u8>, pos: nat, k: nat) {
//@|        lemma_one_prefix::<Idx, Self>(s, pos, k, |a: Idx| core::ops::RangeToInclusive { end: a });
//@|    }
//@  sub <<fn _deserialize_full_inner(backend: &mut impl ReadWithPos) -> deser::Result<Self> {>>
//@  impl_arg
//@  ret r
//@  sub <<fn _deserialize_eps_inner<'a>(>>
//@  ret r
//@end

//@item epserde/src/impls/stdlib.rs props=C01,C02 name=RangeFull::DeserializeInner <<impl DeserializeInner for core::ops::RangeFull {>>
//@  replace <<deser::Result>> <<Result>>
//@  body_prefix
//@|    open spec fn parse(s: Seq<u8>, pos: nat) -> PR<Self> { PR::Val(core::ops::RangeFull, 0) }
//@|    open spec fn eps_rel<'a>(d: Self, v: Self) -> bool { true }
//@|    proof fn lemma_prefix(s: Seq<u8>, pos: nat, k: nat) {}
//@  sub <<fn _deserialize_full_inner(_backend: &mut impl ReadWithPos) -> deser::Result<Self> {>>
//@  impl_arg
//@  ret r
//@  sub <<fn _deserialize_eps_inner<'a>(>>
//@  ret r
//@end


// =========================================================================
// deep sequences: the helper loops (all lengths)
// =========================================================================

/// k items one after the other
pub open spec fn parse_items<T: DeserializeInner>(s: Seq<u8>, pos: nat, k: nat) -> PR<Seq<T>>
    decreases k
{
    if k == 0 {
        PR::Val(Seq::empty(), 0)
    } else {
        match parse_items::<T>(s, pos, (k - 1) as nat) {
            PR::Val(vs, n) => match T::parse(s.skip(n as int), pos + n) {
                PR::Val(v, m) => PR::Val(vs.push(v), n + m),
                PR::BadTag(t) => PR::BadTag(t),
                PR::Short => PR::Short,
            },
            PR::BadTag(t) => PR::BadTag(t),
            PR::Short => PR::Short,
        }
    }
}

/// pointer-width length, then that many items
pub open spec fn parse_seq_deep<T: DeserializeInner>(s: Seq<u8>, pos: nat) -> PR<Seq<T>> {
    match usize::parse(s, pos) {
        PR::Val(len, n) => match parse_items::<T>(s.skip(n as int), pos + n, len as nat) {
            PR::Val(vs, m) => PR::Val(vs, n + m),
            PR::BadTag(t) => PR::BadTag(t),
            PR::Short => PR::Short,
        },
        PR::BadTag(t) => PR::BadTag(t),
        PR::Short => PR::Short,
    }
}

/// once an item fails, every longer sequence fails the same way
proof fn lemma_items_stuck<T: DeserializeInner>(s: Seq<u8>, pos: nat, i: nat, k: nat)
    requires i < k, parse_items::<T>(s, pos, i) is Val,
        !(T::parse(s.skip(parse_items::<T>(s, pos, i)->Val_1 as int), pos + parse_items::<T>(s, pos, i)->Val_1) is Val),
    ensures
        parse_items::<T>(s, pos, k) == (match T::parse(s.skip(parse_items::<T>(s, pos, i)->Val_1 as int), pos + parse_items::<T>(s, pos, i)->Val_1) {
            PR::BadTag(t) => PR::<Seq<T>>::BadTag(t),
            _ => PR::<Seq<T>>::Short,
        }),
    decreases k
{
    if k == i + 1 {
    } else {
        lemma_items_stuck::<T>(s, pos, i, (k - 1) as nat);
    }
}

/// the consumed count of a successful prefix stays within the input
proof fn lemma_items_len<T: DeserializeInner>(s: Seq<u8>, pos: nat, k: nat)
    requires parse_items::<T>(s, pos, k) is Val,
    ensures parse_items::<T>(s, pos, k)->Val_0.len() == k,
        forall|j: nat| j <= k ==> #[trigger] parse_items::<T>(s, pos, j) is Val,
    decreases k
{
    if k > 0 {
        lemma_items_len::<T>(s, pos, (k - 1) as nat);
    }
}

/// C11 for deep sequences of any length: a successful parse of `cnt` items lies
/// within the input, strict prefixes are Short, longer prefixes parse the same
proof fn lemma_items_prefix<T: DeserializeInner>(s: Seq<u8>, pos: nat, cnt: nat, k: nat)
    requires parse_items::<T>(s, pos, cnt) is Val, k <= s.len(),
    ensures parse_items::<T>(s, pos, cnt)->Val_1 <= s.len(),
        k < parse_items::<T>(s, pos, cnt)->Val_1 ==> parse_items::<T>(s.take(k as int), pos, cnt) is Short,
        k >= parse_items::<T>(s, pos, cnt)->Val_1 ==> parse_items::<T>(s.take(k as int), pos, cnt) == parse_items::<T>(s, pos, cnt),
    decreases cnt
{
    if cnt > 0 {
        let c1 = (cnt - 1) as nat;
        lemma_items_prefix::<T>(s, pos, c1, k);
        let n1 = parse_items::<T>(s, pos, c1)->Val_1;
        let s1 = s.skip(n1 as int);
        T::lemma_prefix(s1, pos + n1, if k >= n1 { (k - n1) as nat } else { 0 });
        if k >= n1 {
            assert(s.take(k as int).skip(n1 as int) =~= s1.take(k - n1));
        }
    }
}

proof fn lemma_seq_deep_prefix<T: DeserializeInner>(s: Seq<u8>, pos: nat, k: nat)
    requires parse_seq_deep::<T>(s, pos) is Val, k <= s.len(),
    ensures parse_seq_deep::<T>(s, pos)->Val_1 <= s.len(),
        k < parse_seq_deep::<T>(s, pos)->Val_1 ==> parse_seq_deep::<T>(s.take(k as int), pos) is Short,
        k >= parse_seq_deep::<T>(s, pos)->Val_1 ==> parse_seq_deep::<T>(s.take(k as int), pos) == parse_seq_deep::<T>(s, pos),
{
    usize::lemma_prefix(s, pos, k);
    let len = usize::parse(s, pos)->Val_0;
    let s1 = s.skip(8);
    lemma_items_prefix::<T>(s1, pos + 8, len as nat, if k >= 8 { (k - 8) as nat } else { 0 });
    if k >= 8 {
        assert(s.take(k as int).skip(8) =~= s1.take(k - 8));
    }
}

pub open spec fn full_post_seq<T, R: ReadWithPos>(p: PR<Seq<T>>, pre: &R, post: &R, r: Result<Vec<T>>) -> bool {
    match p {
        PR::Val(vs, n) => match r {
            Ok(x) => x@ == vs
                && n <= pre.rem().len()
                && post.rem() =~= pre.rem().skip(n as int)
                && post.rpos() == pre.rpos() + n,
            Err(e) => (e is ReadError && !pre.reliable()) || (e is AlignmentError && pre.is_slice()),
        },
        PR::BadTag(t) => match r {
            Ok(_) => false,
            Err(e) => e == Error::InvalidTag(t) || (e is ReadError && !pre.reliable())
                || (e is AlignmentError && pre.is_slice()),
        },
        PR::Short => match r {
            Ok(_) => false,
            Err(e) => e is ReadError || (e is AlignmentError && pre.is_slice()),
        },
    }
}

//@item epserde/src/deser/helpers.rs props=C01,C11,C14 name=deserialize_full_vec_deep optional <<pub fn deserialize_full_vec_deep<T: DeserializeInner + DeepCopy>(>>
//@  replace <<deser::Result>> <<Result>>
//@  impl_arg
//@  ret r
//@  spec
//@|    requires old(backend).wf(),
//@|        old(backend).is_slice() ==> !(parse_seq_deep::<T>(old(backend).rem(), old(backend).rpos()) is Short),
//@|    ensures final(backend).wf(),
//@|        final(backend).reliable() == old(backend).reliable(),
//@|        final(backend).is_slice() == old(backend).is_slice(),
//@|        final(backend).rem().len() <= old(backend).rem().len(),
//@|        full_post_seq::<T, ImplArg0>(parse_seq_deep::<T>(old(backend).rem(), old(backend).rpos()), old(backend), final(backend), r),
//@  body_prefix
//@|    let ghost rem0 = backend.rem();
//@|    let ghost pos0 = backend.rpos();
//@  loop_pre 1
//@|    let ghost rem1 = backend.rem();
//@|    let ghost pos1 = backend.rpos();
//@|    let ghost mut n: nat = 0;
//@|    proof { assert(rem1 =~= rem0.skip(8)); assert(rem1.skip(0) =~= rem1); }
//@  loop_iter 1 it
//@  loop 1
//@|        invariant
//@|            backend.wf(),
//@|            backend.reliable() == old(backend).reliable(),
//@|            backend.is_slice() == old(backend).is_slice(),
//@|            usize::parse(rem0, pos0) == PR::Val(len, 8nat),
//@|            rem1 =~= rem0.skip(8), pos1 == pos0 + 8, rem0.len() >= 8,
//@|            rem0 == old(backend).rem(), pos0 == old(backend).rpos(),
//@|            parse_items::<T>(rem1, pos1, it.index@ as nat) == PR::Val(res@, n),
//@|            n <= rem1.len(),
//@|            backend.rem() =~= rem1.skip(n as int),
//@|            backend.rpos() == pos1 + n,
//@|            backend.is_slice() ==> !(parse_items::<T>(rem1, pos1, len as nat) is Short),
//@  loop_body_prefix 1
//@|        let ghost p = T::parse(backend.rem(), backend.rpos());
//@|        let ghost i = it.index@ as nat;
//@|        proof {
//@|            assert(backend.rem() =~= rem1.skip(n as int));
//@|            if !(p is Val) { lemma_items_stuck::<T>(rem1, pos1, i, len as nat); }
//@|        }
//@  loop_body_suffix 1
//@|        proof {
//@|            assert(rem1.skip(n as int).skip(p->Val_1 as int) =~= rem1.skip((n + p->Val_1) as int));
//@|            n = n + p->Val_1;
//@|        }
//@end


/// an eps-copy item sequence describes a value sequence pointwise
pub open spec fn eps_rel_seq<'a, T: DeserializeInner>(d: Seq<<T as DeserializeInner>::DeserType<'a>>, vs: Seq<T>) -> bool {
    d.len() == vs.len() && forall|i: int| 0 <= i < vs.len() ==> T::eps_rel(#[trigger] d[i], vs[i])
}

//@item epserde/src/deser/helpers.rs props=C02,C11 name=deserialize_eps_vec_deep optional <<pub fn deserialize_eps_vec_deep<'a, T: DeepCopy + DeserializeInner>(>>
//@  replace <<deser::Result>> <<Result>>
//@  ret r
//@  spec
//@|    requires slice_wf(old(backend)),
//@|        !(parse_seq_deep::<T>(old(backend).data@, old(backend).pos as nat) is Short),
//@|    ensures slice_wf(final(backend)),
//@|        final(backend).data@.len() <= old(backend).data@.len(),
//@|        match parse_seq_deep::<T>(old(backend).data@, old(backend).pos as nat) {
//@|            PR::Val(vs, n) => match r {
//@|                Ok(d) => eps_rel_seq::<T>(d@, vs)
//@|                    && n <= old(backend).data@.len()
//@|                    && final(backend).data@ =~= old(backend).data@.skip(n as int)
//@|                    && final(backend).pos == old(backend).pos + n,
//@|                Err(e) => e is AlignmentError,
//@|            },
//@|            PR::BadTag(t) => match r {
//@|                Ok(_) => false,
//@|                Err(e) => e is AlignmentError || e == Error::InvalidTag(t),
//@|            },
//@|            PR::Short => true,
//@|        },
//@  body_prefix
//@|    let ghost rem0 = backend.data@;
//@|    let ghost pos0 = backend.pos as nat;
//@  loop_pre 1
//@|    let ghost rem1 = backend.data@;
//@|    let ghost pos1 = backend.pos as nat;
//@|    let ghost mut n: nat = 0;
//@|    let ghost mut vs: Seq<T> = Seq::empty();
//@|    proof { assert(rem1 =~= rem0.skip(8)); assert(rem1.skip(0) =~= rem1); }
//@  loop_iter 1 it
//@  loop 1
//@|        invariant
//@|            slice_wf(backend),
//@|            usize::parse(rem0, pos0) == PR::Val(len, 8nat),
//@|            rem1 =~= rem0.skip(8), pos1 == pos0 + 8, rem0.len() >= 8,
//@|            rem0 == old(backend).data@, pos0 == old(backend).pos as nat,
//@|            parse_items::<T>(rem1, pos1, it.index@ as nat) == PR::Val(vs, n),
//@|            eps_rel_seq::<T>(res@, vs),
//@|            n <= rem1.len(),
//@|            backend.data@ =~= rem1.skip(n as int),
//@|            backend.pos as nat == pos1 + n,
//@|            !(parse_items::<T>(rem1, pos1, len as nat) is Short),
//@  loop_body_prefix 1
//@|        let ghost p = T::parse(backend.data@, backend.pos as nat);
//@|        let ghost i = it.index@ as nat;
//@|        proof {
//@|            assert(backend.data@ =~= rem1.skip(n as int));
//@|            if !(p is Val) { lemma_items_stuck::<T>(rem1, pos1, i, len as nat); }
//@|        }
//@  loop_body_suffix 1
//@|        proof {
//@|            assert(rem1.skip(n as int).skip(p->Val_1 as int) =~= rem1.skip((n + p->Val_1) as int));
//@|            n = n + p->Val_1;
//@|            vs = vs.push(p->Val_0);
//@|        }
//@end


// =========================================================================
// zero-copy sequences, full copy: the control skeleton of the unsafe helper
// (length, padding - also for an empty sequence -, exactly len * size bytes).
// The *contents* of the elements are not interpreted here (Kani: rt_full_vec_*).
// =========================================================================

/// std (unsafe): sets the length
pub assume_specification<T, A: Allocator>[ Vec::<T, A>::set_len ](v: &mut Vec<T, A>, n: usize)
    ensures final(v)@.len() == n;

/// the memory image of a sequence of T and the bytes of a sequence of U (uninterpreted)
pub uninterp spec fn image_seq<T>(vs: Seq<T>) -> Seq<u8>;
pub uninterp spec fn as_bytes<U>(us: Seq<U>) -> Seq<u8>;
/// the elements of a zero-copy sequence as decoded from their memory image (uninterpreted)
pub uninterp spec fn zc_seq<T>(bytes: Seq<u8>, len: nat) -> Seq<T>;
pub axiom fn axiom_as_bytes_u8()
    ensures forall|b: Seq<u8>| #[trigger] as_bytes::<u8>(b) == b;
/// decoding a memory image gives the elements back (the image determines the elements)
pub axiom fn axiom_zc_image<T>()
    ensures forall|vs: Seq<T>| #[trigger] zc_seq::<T>(image_seq::<T>(vs), vs.len()) == vs;
pub axiom fn axiom_zc_seq<T>()
    ensures forall|b: Seq<u8>, len: nat| (#[trigger] zc_seq::<T>(b, len)).len() == len;
/// platform axiom
pub axiom fn axiom_u8_size()
    ensures vstd::layout::size_of::<u8>() == 1;

/// std (unsafe): a slice viewed as bytes covers exactly its memory, and what is written
/// through the middle part is the memory of the slice
pub assume_specification<T, U>[ <[T]>::align_to_mut::<U> ](s: &mut [T]) -> (r: (&mut [T], &mut [U], &mut [T]))
    ensures r.1@.len() * vstd::layout::size_of::<U>() == old(s)@.len() * vstd::layout::size_of::<T>(),
        final(s)@.len() == old(s)@.len(),
        image_seq::<T>(final(s)@) == as_bytes::<U>(final(r.1)@);

/// bytes occupied by a sequence of `len` zero-copy elements of type T at offset pos:
/// pointer-width length, minimal gap to a multiple of T's unit, len * size_of::<T>()
pub open spec fn seq_zero_pad<T: MaxSizeOf>(pos: nat) -> nat {
    pad_spec((pos + 8) as int, T::unit() as int) as nat
}
pub open spec fn seq_zero_span<T: MaxSizeOf>(pos: nat, len: nat) -> nat {
    8 + seq_zero_pad::<T>(pos) + len * vstd::layout::size_of::<T>()
}

//@item epserde/src/deser/helpers.rs props=C01,C07,C11 name=deserialize_full_vec_zero optional <<pub fn deserialize_full_vec_zero<T: DeserializeInner + ZeroCopy>(>>
//@  replace <<deser::Result>> <<Result>>
//@  impl_arg
//@  ret r
//@  spec
//@|    requires old(backend).wf(), vstd::layout::size_of::<u8>() == 1,
//@|        // slice cursors may panic on truncated input (documented, C11)
//@|        old(backend).is_slice() ==> (old(backend).rem().len() >= 8
//@|            && seq_zero_span::<T>(old(backend).rpos(), usize_of(old(backend).rem().take(8)) as nat) <= old(backend).rem().len()),
//@|    ensures final(backend).wf(),
//@|        final(backend).reliable() == old(backend).reliable(),
//@|        final(backend).is_slice() == old(backend).is_slice(),
//@|        final(backend).rem().len() <= old(backend).rem().len(),
//@|        ({
//@|            let s = old(backend).rem();
//@|            let len = usize_of(s.take(8)) as nat;
//@|            let span = seq_zero_span::<T>(old(backend).rpos(), len);
//@|            match r {
//@|                // exactly the announced number of elements, exactly the bytes of the sequence consumed
//@|                Ok(v) => s.len() >= span && v@.len() == len
//@|                    // the memory of the vector holds exactly the bytes that follow the gap
//@|                    && image_seq::<T>(v@) == s.skip(8).skip(seq_zero_pad::<T>(old(backend).rpos()) as int).take((len * vstd::layout::size_of::<T>()) as int)
//@|                    && final(backend).rem() =~= s.skip(span as int)
//@|                    && final(backend).rpos() == old(backend).rpos() + span,
//@|                // a complete sequence is never refused by a reliable reader (C01); a truncated one always is (C11)
//@|                Err(e) => (e is ReadError && (old(backend).reliable() ==> (s.len() < 8 || s.len() < span)))
//@|                    || (e is AlignmentError && old(backend).is_slice()),
//@|            }
//@|        }),
//@  body_prefix
//@|    proof { axiom_as_bytes_u8(); }
//@end


// ---- zero-copy sequences, eps copy: control skeleton of the unsafe carver ------

/// std (unsafe): the three parts cover the slice
pub assume_specification<T, U>[ <[T]>::align_to::<U> ](s: &[T]) -> (r: (&[T], &[U], &[T]))
    ensures r.0@.len() * vstd::layout::size_of::<T>() + r.1@.len() * vstd::layout::size_of::<U>()
        + r.2@.len() * vstd::layout::size_of::<T>() == s@.len() * vstd::layout::size_of::<T>();

/// std (unsafe): a slice of `len` elements
pub assume_specification<'a, T>[ core::slice::from_raw_parts::<'a, T> ](p: *const T, len: usize) -> (r: &'a [T])
    ensures r@.len() == len;

/// `NonNull` is outside Verus' dialect (pattern types): the one expression that
/// builds a slice of zero-sized elements from a dangling pointer is replaced by
/// this assumed helper (recorded R3 replacement; checked by Kani: rt_eps_vec_unit_1)
#[verifier::external_body]
pub fn assumed_dangling_slice<'a, T>(len: usize) -> (r: &'a [T])
    requires vstd::layout::size_of::<T>() == 0,
    ensures r@.len() == len,
{ unimplemented!() }

//@item epserde/src/deser/helpers.rs props=C02,C03,C07,C11 name=deserialize_eps_slice_zero optional <<pub fn deserialize_eps_slice_zero<'a, T: ZeroCopy>(>>
//@  replace <<deser::Result>> <<Result>>
//@  replace <<unsafe { core::slice::from_raw_parts(core::ptr::NonNull::<T>::dangling().as_ptr(), len) }>> <<assumed_dangling_slice::<T>(len)>>
//@  replace <<debug_assert!(pre.is_empty());>> <<>>
//@  replace <<debug_assert!(after.is_empty());>> <<>>
//@  ret r
//@  spec
//@|    requires slice_wf(old(backend)), vstd::layout::size_of::<u8>() == 1,
//@|        // truncated input may panic in eps mode (documented, C11)
//@|        old(backend).data@.len() >= 8,
//@|        seq_zero_span::<T>(old(backend).pos as nat, usize_of(old(backend).data@.take(8)) as nat) <= old(backend).data@.len(),
//@|        usize_of(old(backend).data@.take(8)) * vstd::layout::size_of::<T>() <= old(backend).data@.len(),
//@|    ensures slice_wf(final(backend)),
//@|        ({
//@|            let s = old(backend).data@;
//@|            let len = usize_of(s.take(8)) as nat;
//@|            let pad = pad_spec((old(backend).pos + 8) as int, T::unit() as int);
//@|            let bytes = len * vstd::layout::size_of::<T>();
//@|            match r {
//@|                // the cursor advances over exactly the bytes of the sequence: length word,
//@|                // padding (also when the sequence is empty) and len * size bytes
//@|                Ok(d) => final(backend).data@ =~= s.skip(8).skip(pad).skip(bytes as int)
//@|                    && final(backend).pos == old(backend).pos + 8 + pad + bytes
//@|                    && (vstd::layout::size_of::<T>() == 0 ==> d@.len() == len),
//@|                Err(e) => e is AlignmentError,
//@|            }
//@|        }),
//@end

