//@include inc/format.rs

// =========================================================================
// errors and traits (verbatim from /repo)
// =========================================================================

//@item epserde/src/deser/mod.rs name=deser::Error <<pub enum Error {>>
//@  replace <<FileOpenError(std::io::Error),>> <<>>
//@end

//@item epserde/src/deser/mod.rs name=deser::Result <<pub type Result<T> = core::result::Result<T, Error>;>>
//@end

//@item epserde/src/traits/type_info.rs props=C07 name=MaxSizeOf <<pub trait MaxSizeOf: Sized {>>
//@  body_prefix
//@|    /// the alignment unit of the type (ghost)
//@|    spec fn unit() -> nat;
//@  sub <<fn max_size_of() -> usize;>>
//@  ret r
//@  spec
//@|        ensures r as nat == Self::unit(), is_pow2(r as int),
//@end

//@item epserde/src/deser/read.rs props=C01,C11,C14 name=ReadNoStd <<pub trait ReadNoStd {>>
//@  body_prefix
//@|    /// the bytes this reader has not delivered yet (ghost)
//@|    spec fn rem(&self) -> Seq<u8>;
//@|    /// representation invariant
//@|    spec fn wf(&self) -> bool;
//@|    /// a reliable reader fails only when asked for more than it has
//@|    spec fn reliable(&self) -> bool;
//@|    /// stream offset of the next byte (ghost; `ReadWithPos::pos` reports it)
//@|    spec fn rpos(&self) -> nat;
//@|    /// slice cursors panic instead of failing when padding runs past the end,
//@|    /// and refuse misplaced blocks (ghost)
//@|    spec fn is_slice(&self) -> bool;
//@  sub <<fn read_exact(&mut self, buf: &mut [u8]) -> deser::Result<()>;>>
//@  replace <<deser::Result>> <<Result>>
//@  ret r
//@  spec
//@|        requires old(self).wf(),
//@|        ensures final(self).wf(),
//@|            final(self).reliable() == old(self).reliable(),
//@|            final(self).is_slice() == old(self).is_slice(),
//@|            final(buf)@.len() == old(buf)@.len(),
//@|            final(self).rem().len() <= old(self).rem().len(),
//@|            match r {
//@|                Ok(()) => old(buf)@.len() <= old(self).rem().len()
//@|                    && final(buf)@ == old(self).rem().take(old(buf)@.len() as int)
//@|                    && final(self).rem() == old(self).rem().skip(old(buf)@.len() as int)
//@|                    && final(self).rpos() == old(self).rpos() + old(buf)@.len(),
//@|                Err(e) => e is ReadError
//@|                    && (old(self).reliable() ==> old(buf)@.len() > old(self).rem().len()),
//@|            },
//@end

//@item epserde/src/deser/read.rs props=C01,C07,C11,C12,C14 name=ReadWithPos <<pub trait ReadWithPos: ReadNoStd + Sized {>>
//@  sub <<fn pos(&self) -> usize;>>
//@  ret r
//@  spec
//@|        requires self.wf(),
//@|        ensures r as nat == self.rpos(),
//@  sub <<fn align<T: MaxSizeOf>(&mut self) -> deser::Result<()>;>>
//@  replace <<deser::Result>> <<Result>>
//@  ret r
//@  spec
//@|        requires old(self).wf(),
//@|            old(self).is_slice() ==> pad_spec(old(self).rpos() as int, T::unit() as int) <= old(self).rem().len(),
//@|        ensures final(self).wf(),
//@|            final(self).reliable() == old(self).reliable(),
//@|            final(self).is_slice() == old(self).is_slice(),
//@|            final(self).rem().len() <= old(self).rem().len(),
//@|            ({
//@|                let pad = pad_spec(old(self).rpos() as int, T::unit() as int);
//@|                is_pow2(T::unit() as int) && 0 <= pad < T::unit() && match r {
//@|                    Ok(()) => pad <= old(self).rem().len()
//@|                        && final(self).rem() == old(self).rem().skip(pad)
//@|                        && final(self).rpos() == old(self).rpos() + pad,
//@|                    Err(e) => (e is ReadError && !old(self).is_slice()
//@|                            && (old(self).reliable() ==> pad > old(self).rem().len()))
//@|                        || (e is AlignmentError && old(self).is_slice()),
//@|                }
//@|            }),
//@end

// =========================================================================
// the slice cursor
// =========================================================================

//@item epserde/src/deser/slice_with_pos.rs name=SliceWithPos <<pub struct SliceWithPos<'a> {>>
//@end

/// streams are shorter than the address space (machine arithmetic made explicit)
pub open spec fn slice_wf(s: &SliceWithPos) -> bool {
    s.pos as int + s.data@.len() <= usize::MAX as int
}

//@item epserde/src/deser/slice_with_pos.rs props=C02,C11 name=SliceWithPos::inherent <<impl<'a> SliceWithPos<'a> {>>
//@  sub <<pub fn new(backend: &'a [u8]) -> Self {>>
//@  ret r
//@  spec
//@|        ensures r.data@ == backend@, r.pos == 0,
//@  sub <<pub fn skip(&mut self, bytes: usize) {>>
//@  spec
//@|        requires bytes <= old(self).data@.len(), slice_wf(old(self)),
//@|        ensures final(self).data@ == old(self).data@.skip(bytes as int),
//@|            final(self).pos == old(self).pos + bytes, slice_wf(final(self)),
//@end

//@item epserde/src/deser/slice_with_pos.rs props=C01,C02,C11 name=SliceWithPos::ReadNoStd <<impl ReadNoStd for SliceWithPos<'_> {>>
//@  replace <<deser::Result>> <<Result>>
//@  body_prefix
//@|    open spec fn rem(&self) -> Seq<u8> { self.data@ }
//@|    open spec fn wf(&self) -> bool { slice_wf(self) }
//@|    open spec fn reliable(&self) -> bool { true }
//@|    open spec fn rpos(&self) -> nat { self.pos as nat }
//@|    open spec fn is_slice(&self) -> bool { true }
//@  sub <<fn read_exact(&mut self, buf: &mut [u8]) -> deser::Result<()> {>>
//@  ret r
//@end

//@item epserde/src/deser/slice_with_pos.rs props=C02,C07,C12 name=SliceWithPos::ReadWithPos <<impl ReadWithPos for SliceWithPos<'_> {>>
//@  replace <<deser::Result>> <<Result>>
//@  replace <<crate::pad_align_to>> <<pad_align_to>>
//@  sub <<fn pos(&self) -> usize {>>
//@  ret r
//@  sub <<fn align<T: MaxSizeOf>(&mut self) -> deser::Result<()> {>>
//@  ret r
//@end

// =========================================================================
// the generic reader
// =========================================================================

//@item epserde/src/deser/reader_with_pos.rs name=ReaderWithPos <<pub struct ReaderWithPos<'a, F: ReadNoStd> {>>
//@end

//@item epserde/src/deser/reader_with_pos.rs props=C01 name=ReaderWithPos::inherent <<impl<'a, F: ReadNoStd> ReaderWithPos<'a, F> {>>
//@  sub <<pub fn new(backend: &'a mut F) -> Self {>>
//@  ret r
//@  spec
//@|        requires old(backend).wf(), old(backend).rem().len() <= usize::MAX,
//@|        ensures r.wf(), r.rem() == old(backend).rem(), r.rpos() == 0, r.reliable() == old(backend).reliable(), !r.is_slice(),
//@end

//@item epserde/src/deser/reader_with_pos.rs props=C01,C07,C11,C14 name=ReaderWithPos::ReadNoStd <<impl<F: ReadNoStd> ReadNoStd for ReaderWithPos<'_, F> {>>
//@  replace <<deser::Result>> <<Result>>
//@  body_prefix
//@|    closed spec fn rem(&self) -> Seq<u8> { self.backend.rem() }
//@|    closed spec fn wf(&self) -> bool { self.backend.wf() && self.pos as int + self.backend.rem().len() <= usize::MAX as int }
//@|    closed spec fn reliable(&self) -> bool { self.backend.reliable() }
//@|    closed spec fn rpos(&self) -> nat { self.pos as nat }
//@|    closed spec fn is_slice(&self) -> bool { false }
//@  sub <<fn read_exact(&mut self, buf: &mut [u8]) -> deser::Result<()> {>>
//@  ret r
//@end

//@item epserde/src/deser/reader_with_pos.rs props=C01,C07,C11,C14 name=ReaderWithPos::ReadWithPos <<impl<F: ReadNoStd> ReadWithPos for ReaderWithPos<'_, F> {>>
//@  replace <<deser::Result>> <<Result>>
//@  replace <<crate::pad_align_to>> <<pad_align_to>>
//@  sub <<fn pos(&self) -> usize {>>
//@  ret r
//@  sub <<fn align<T: MaxSizeOf>(&mut self) -> deser::Result<()> {>>
//@  ret r
//@end


// =========================================================================
// DeserializeInner: the trait-level contract every implementation is checked
// against (and every caller relies on): the result is the grammar's parse.
// =========================================================================

//@item epserde/src/deser/mod.rs props=C01,C02,C07,C11,C15 name=DeserializeInner <<pub trait DeserializeInner: Sized {>>
//@  body_prefix
//@|    /// the published encoding of Self, as a parser (ghost)
//@|    spec fn parse(s: Seq<u8>, pos: nat) -> PR<Self>;
//@|    /// an eps-copy result `d` describes the value `v` (ghost)
//@|    spec fn eps_rel<'a>(d: Self::DeserType<'a>, v: Self) -> bool;
//@|    /// C11: the encoding is self-delimiting. A successful parse lies within
//@|    /// the input; every strict prefix of it is `Short` (so a truncated stream is
//@|    /// never a value), and every longer prefix parses to the same result.
//@|    proof fn lemma_prefix(s: Seq<u8>, pos: nat, k: nat)
//@|        requires Self::parse(s, pos) is Val, k <= s.len(),
//@|        ensures Self::parse(s, pos)->Val_1 <= s.len(),
//@|            k < Self::parse(s, pos)->Val_1 ==> Self::parse(s.take(k as int), pos) is Short,
//@|            k >= Self::parse(s, pos)->Val_1 ==> Self::parse(s.take(k as int), pos) == Self::parse(s, pos);
//@  sub <<fn _deserialize_full_inner(backend: &mut impl ReadWithPos) -> Result<Self>;>>
//@  impl_arg
//@  ret r
//@  spec
//@|        requires old(backend).wf(),
//@|            // slice cursors may panic on truncated input (documented, C11)
//@|            old(backend).is_slice() ==> !(Self::parse(old(backend).rem(), old(backend).rpos()) is Short),
//@|        ensures final(backend).wf(),
//@|            final(backend).reliable() == old(backend).reliable(),
//@|            final(backend).is_slice() == old(backend).is_slice(),
//@|            final(backend).rem().len() <= old(backend).rem().len(),
//@|            full_post::<Self, ImplArg0>(Self::parse(old(backend).rem(), old(backend).rpos()), old(backend), final(backend), r),
//@  sub <<fn _deserialize_eps_inner<'a>(backend: &mut SliceWithPos<'a>) -> Result<Self::DeserType<'a>>;>>
//@  ret r
//@  spec
//@|        requires slice_wf(old(backend)),
//@|            !(Self::parse(old(backend).data@, old(backend).pos as nat) is Short),
//@|        ensures slice_wf(final(backend)),
//@|            final(backend).data@.len() <= old(backend).data@.len(),
//@|            match Self::parse(old(backend).data@, old(backend).pos as nat) {
//@|                PR::Val(v, n) => match r {
//@|                    Ok(d) => Self::eps_rel(d, v)
//@|                        && n <= old(backend).data@.len()
//@|                        && final(backend).data@ =~= old(backend).data@.skip(n as int)
//@|                        && final(backend).pos == old(backend).pos + n,
//@|                    Err(e) => e is AlignmentError,
//@|                },
//@|                PR::BadTag(t) => match r {
//@|                    Ok(_) => false,
//@|                    Err(e) => e is AlignmentError || e == Error::InvalidTag(t),
//@|                },
//@|                PR::Short => true,
//@|            },
//@end

/// full-copy postcondition, shared by the trait and the helper functions
pub open spec fn full_post<T, R: ReadWithPos>(p: PR<T>, pre: &R, post: &R, r: Result<T>) -> bool {
    match p {
        PR::Val(v, n) => match r {
            Ok(x) => x == v
                && n <= pre.rem().len()
                && post.rem() =~= pre.rem().skip(n as int)
                && post.rpos() == pre.rpos() + n,
            Err(e) => (e is ReadError && !pre.reliable()) || (e is AlignmentError && pre.is_slice()),
        },
        PR::BadTag(t) => match r {
            Ok(_) => false,
            Err(e) => e == Error::InvalidTag(t) || (e is ReadError && !pre.reliable())
                || (e is AlignmentError && pre.is_slice()),
        },
        PR::Short => match r {
            Ok(_) => false,
            Err(e) => e is ReadError || (e is AlignmentError && pre.is_slice()),
        },
    }
}

// ---- primitives: assumed contracts (bodies use from_ne_bytes / try_into, which
// Verus cannot specify); checked on the real code by Kani lemmas rt_full_uints,
// rt_eps_uints_1, cut_* ----

macro_rules! assumed_prim {
    ($t:ty, $of:ident, $n:expr) => {
        verus! {
        impl DeserializeInner for $t {
            type DeserType<'a> = Self;
            open spec fn parse(s: Seq<u8>, pos: nat) -> PR<Self> { parse_fixed(s, $n, |b: Seq<u8>| $of(b)) }
            open spec fn eps_rel<'a>(d: Self, v: Self) -> bool { d == v }
            proof fn lemma_prefix(s: Seq<u8>, pos: nat, k: nat) {
                if k >= $n { assert(s.take(k as int).take($n) =~= s.take($n)); }
            }
            #[verifier::external_body]
            fn _deserialize_full_inner<R: ReadWithPos>(backend: &mut R) -> (r: Result<Self>) { unimplemented!() }
            #[verifier::external_body]
            fn _deserialize_eps_inner<'a>(backend: &mut SliceWithPos<'a>) -> (r: Result<Self>) { unimplemented!() }
        }
        }
    };
}
assumed_prim!(u8, u8_of, 1);
assumed_prim!(u32, u32_of, 4);
assumed_prim!(usize, usize_of, 8);

