// =========================================================================
// prefix algebra for C13
// =========================================================================

pub proof fn lemma_prefix_trans(a: Seq<u8>, b: Seq<u8>, c: Seq<u8>)
    requires is_prefix(a, b), is_prefix(b, c),
    ensures is_prefix(a, c),
{
    assert forall|j: int| 0 <= j < a.len() implies a[j] == c[j] by {
        assert(a[j] == b.take(a.len() as int)[j]);
        assert(b[j] == c.take(b.len() as int)[j]);
    }
}

pub proof fn lemma_prefix_ext(a: Seq<u8>, x: Seq<u8>, y: Seq<u8>)
    ensures is_prefix(a, a + x), is_prefix(a + x, a + x + y), is_prefix(a, a),
{
}

/// failure inside the second part: old + first part was written, then a prefix of the second
pub proof fn lemma_err_second(s0: Seq<u8>, e1: Seq<u8>, e2: Seq<u8>, s2: Seq<u8>)
    requires is_prefix(s0 + e1, s2), is_prefix(s2, s0 + e1 + e2),
    ensures is_prefix(s0, s2), is_prefix(s2, s0 + (e1 + e2)),
{
    lemma_prefix_ext(s0, e1, e2);
    lemma_prefix_trans(s0, s0 + e1, s2);
    assert(s0 + e1 + e2 =~= s0 + (e1 + e2));
}

/// failure inside the first part
pub proof fn lemma_err_first(s0: Seq<u8>, e1: Seq<u8>, e2: Seq<u8>, s2: Seq<u8>)
    requires is_prefix(s0, s2), is_prefix(s2, s0 + e1),
    ensures is_prefix(s2, s0 + (e1 + e2)),
{
    assert(s0 + e1 + e2 =~= s0 + (e1 + e2));
    lemma_prefix_ext(s0, e1, e2);
    lemma_prefix_trans(s2, s0 + e1, s0 + e1 + e2);
}

// =========================================================================
// primitives: assumed contracts (bodies use to_ne_bytes); the inverse law is
// checked on the real code by the Kani lemmas rt_full_uints & co.
// =========================================================================

pub uninterp spec fn u32_bytes(v: u32) -> Seq<u8>;
pub uninterp spec fn usize_bytes(v: usize) -> Seq<u8>;

#[verifier::external_body]
pub proof fn axiom_ne_bytes()
    ensures
        forall|v: u32| #[trigger] u32_bytes(v).len() == 4 && u32_of(u32_bytes(v)) == v,
        forall|v: usize| #[trigger] usize_bytes(v).len() == 8 && usize_of(usize_bytes(v)) == v,
{
}

macro_rules! assumed_prim_ser {
    ($t:ty, $e:expr) => {
        verus! {
        impl SerializeInner for $t {
            type SerType = Self;
            const IS_ZERO_COPY: bool = true;
            const ZERO_COPY_MISMATCH: bool = false;
            open spec fn enc(&self, pos: nat) -> Seq<u8> { ($e)(*self) }
            #[verifier::external_body]
            fn _serialize_inner<W: WriteWithNames>(&self, backend: &mut W) -> (r: SResult<()>) { unimplemented!() }
        }
        }
    };
}
assumed_prim_ser!(u8, |v: u8| seq![v]);
assumed_prim_ser!(u32, |v: u32| u32_bytes(v));
assumed_prim_ser!(usize, |v: usize| usize_bytes(v));

/// C01: decoding what was encoded, with anything after it, gives the value back
/// and consumes exactly the encoding
pub trait RoundTrip: SerializeInner + DeserializeInner {
    proof fn lemma_rt(&self, pos: nat, rest: Seq<u8>)
        ensures Self::parse(self.enc(pos) + rest, pos) == PR::Val(*self, self.enc(pos).len());
}

impl RoundTrip for u8 {
    proof fn lemma_rt(&self, pos: nat, rest: Seq<u8>) {
        assert((seq![*self] + rest).take(1) =~= seq![*self]);
    }
}
impl RoundTrip for u32 {
    proof fn lemma_rt(&self, pos: nat, rest: Seq<u8>) {
        axiom_ne_bytes();
        assert((u32_bytes(*self) + rest).take(4) =~= u32_bytes(*self));
    }
}
impl RoundTrip for usize {
    proof fn lemma_rt(&self, pos: nat, rest: Seq<u8>) {
        axiom_ne_bytes();
        assert((usize_bytes(*self) + rest).take(8) =~= usize_bytes(*self));
    }
}

