// ---- lemmas ----------------------------------------------------------------

proof fn lemma_pow2_bits(a: u64)
    requires is_pow2(a as int),
    ensures a != 0, a & sub(a, 1) == 0,
{
    assert(a != 0 && a & sub(a, 1) == 0) by (bit_vector)
        requires
    a == 0x1 || a == 0x2 || a == 0x4 || a == 0x8 || a == 0x10 || a == 0x20 || a == 0x40 || a == 0x80
    || a == 0x100 || a == 0x200 || a == 0x400 || a == 0x800 || a == 0x1000 || a == 0x2000 || a == 0x4000 || a == 0x8000
    || a == 0x1_0000 || a == 0x2_0000 || a == 0x4_0000 || a == 0x8_0000 || a == 0x10_0000 || a == 0x20_0000 || a == 0x40_0000 || a == 0x80_0000
    || a == 0x100_0000 || a == 0x200_0000 || a == 0x400_0000 || a == 0x800_0000 || a == 0x1000_0000 || a == 0x2000_0000 || a == 0x4000_0000 || a == 0x8000_0000
    || a == 0x1_0000_0000 || a == 0x2_0000_0000 || a == 0x4_0000_0000 || a == 0x8_0000_0000
    || a == 0x10_0000_0000 || a == 0x20_0000_0000 || a == 0x40_0000_0000 || a == 0x80_0000_0000
    || a == 0x100_0000_0000 || a == 0x200_0000_0000 || a == 0x400_0000_0000 || a == 0x800_0000_0000
    || a == 0x1000_0000_0000 || a == 0x2000_0000_0000 || a == 0x4000_0000_0000 || a == 0x8000_0000_0000
    || a == 0x1_0000_0000_0000 || a == 0x2_0000_0000_0000 || a == 0x4_0000_0000_0000 || a == 0x8_0000_0000_0000
    || a == 0x10_0000_0000_0000 || a == 0x20_0000_0000_0000 || a == 0x40_0000_0000_0000 || a == 0x80_0000_0000_0000
    || a == 0x100_0000_0000_0000 || a == 0x200_0000_0000_0000 || a == 0x400_0000_0000_0000 || a == 0x800_0000_0000_0000
    || a == 0x1000_0000_0000_0000 || a == 0x2000_0000_0000_0000 || a == 0x4000_0000_0000_0000 || a == 0x8000_0000_0000_0000;
}

/// bit level: the masked negation is below the unit and completes `v` to a
/// multiple of the unit (wrapping addition, mask instead of remainder)
proof fn lemma_pad_bits(v: u64, a: u64, neg: u64)
    requires a != 0, a & sub(a, 1) == 0, neg == sub(0, v),
    ensures (neg & sub(a, 1)) < a, (add(v, neg & sub(a, 1)) & sub(a, 1)) == 0,
{
    assert((neg & sub(a, 1)) < a && (add(v, neg & sub(a, 1)) & sub(a, 1)) == 0) by (bit_vector)
        requires a != 0, a & sub(a, 1) == 0, neg == sub(0, v);
}

/// for a power-of-two unit the mask is the remainder
proof fn lemma_mask_is_mod(x: u64, a: u64)
    requires a != 0, a & sub(a, 1) == 0,
    ensures x & sub(a, 1) == x % a,
{
    assert(x & sub(a, 1) == x % a) by (bit_vector)
        requires a != 0, a & sub(a, 1) == 0;
}

proof fn lemma_pow2_divides_2_64(a: int)
    requires is_pow2(a),
    ensures 0x1_0000_0000_0000_0000int % a == 0,
{
    if a == 0x1 { assert(0x1_0000_0000_0000_0000int % 0x1int == 0) by (compute_only); }
    if a == 0x2 { assert(0x1_0000_0000_0000_0000int % 0x2int == 0) by (compute_only); }
    if a == 0x4 { assert(0x1_0000_0000_0000_0000int % 0x4int == 0) by (compute_only); }
    if a == 0x8 { assert(0x1_0000_0000_0000_0000int % 0x8int == 0) by (compute_only); }
    if a == 0x10 { assert(0x1_0000_0000_0000_0000int % 0x10int == 0) by (compute_only); }
    if a == 0x20 { assert(0x1_0000_0000_0000_0000int % 0x20int == 0) by (compute_only); }
    if a == 0x40 { assert(0x1_0000_0000_0000_0000int % 0x40int == 0) by (compute_only); }
    if a == 0x80 { assert(0x1_0000_0000_0000_0000int % 0x80int == 0) by (compute_only); }
    if a == 0x100 { assert(0x1_0000_0000_0000_0000int % 0x100int == 0) by (compute_only); }
    if a == 0x200 { assert(0x1_0000_0000_0000_0000int % 0x200int == 0) by (compute_only); }
    if a == 0x400 { assert(0x1_0000_0000_0000_0000int % 0x400int == 0) by (compute_only); }
    if a == 0x800 { assert(0x1_0000_0000_0000_0000int % 0x800int == 0) by (compute_only); }
    if a == 0x1000 { assert(0x1_0000_0000_0000_0000int % 0x1000int == 0) by (compute_only); }
    if a == 0x2000 { assert(0x1_0000_0000_0000_0000int % 0x2000int == 0) by (compute_only); }
    if a == 0x4000 { assert(0x1_0000_0000_0000_0000int % 0x4000int == 0) by (compute_only); }
    if a == 0x8000 { assert(0x1_0000_0000_0000_0000int % 0x8000int == 0) by (compute_only); }
    if a == 0x10000 { assert(0x1_0000_0000_0000_0000int % 0x10000int == 0) by (compute_only); }
    if a == 0x20000 { assert(0x1_0000_0000_0000_0000int % 0x20000int == 0) by (compute_only); }
    if a == 0x40000 { assert(0x1_0000_0000_0000_0000int % 0x40000int == 0) by (compute_only); }
    if a == 0x80000 { assert(0x1_0000_0000_0000_0000int % 0x80000int == 0) by (compute_only); }
    if a == 0x100000 { assert(0x1_0000_0000_0000_0000int % 0x100000int == 0) by (compute_only); }
    if a == 0x200000 { assert(0x1_0000_0000_0000_0000int % 0x200000int == 0) by (compute_only); }
    if a == 0x400000 { assert(0x1_0000_0000_0000_0000int % 0x400000int == 0) by (compute_only); }
    if a == 0x800000 { assert(0x1_0000_0000_0000_0000int % 0x800000int == 0) by (compute_only); }
    if a == 0x1000000 { assert(0x1_0000_0000_0000_0000int % 0x1000000int == 0) by (compute_only); }
    if a == 0x2000000 { assert(0x1_0000_0000_0000_0000int % 0x2000000int == 0) by (compute_only); }
    if a == 0x4000000 { assert(0x1_0000_0000_0000_0000int % 0x4000000int == 0) by (compute_only); }
    if a == 0x8000000 { assert(0x1_0000_0000_0000_0000int % 0x8000000int == 0) by (compute_only); }
    if a == 0x10000000 { assert(0x1_0000_0000_0000_0000int % 0x10000000int == 0) by (compute_only); }
    if a == 0x20000000 { assert(0x1_0000_0000_0000_0000int % 0x20000000int == 0) by (compute_only); }
    if a == 0x40000000 { assert(0x1_0000_0000_0000_0000int % 0x40000000int == 0) by (compute_only); }
    if a == 0x80000000 { assert(0x1_0000_0000_0000_0000int % 0x80000000int == 0) by (compute_only); }
    if a == 0x100000000 { assert(0x1_0000_0000_0000_0000int % 0x100000000int == 0) by (compute_only); }
    if a == 0x200000000 { assert(0x1_0000_0000_0000_0000int % 0x200000000int == 0) by (compute_only); }
    if a == 0x400000000 { assert(0x1_0000_0000_0000_0000int % 0x400000000int == 0) by (compute_only); }
    if a == 0x800000000 { assert(0x1_0000_0000_0000_0000int % 0x800000000int == 0) by (compute_only); }
    if a == 0x1000000000 { assert(0x1_0000_0000_0000_0000int % 0x1000000000int == 0) by (compute_only); }
    if a == 0x2000000000 { assert(0x1_0000_0000_0000_0000int % 0x2000000000int == 0) by (compute_only); }
    if a == 0x4000000000 { assert(0x1_0000_0000_0000_0000int % 0x4000000000int == 0) by (compute_only); }
    if a == 0x8000000000 { assert(0x1_0000_0000_0000_0000int % 0x8000000000int == 0) by (compute_only); }
    if a == 0x10000000000 { assert(0x1_0000_0000_0000_0000int % 0x10000000000int == 0) by (compute_only); }
    if a == 0x20000000000 { assert(0x1_0000_0000_0000_0000int % 0x20000000000int == 0) by (compute_only); }
    if a == 0x40000000000 { assert(0x1_0000_0000_0000_0000int % 0x40000000000int == 0) by (compute_only); }
    if a == 0x80000000000 { assert(0x1_0000_0000_0000_0000int % 0x80000000000int == 0) by (compute_only); }
    if a == 0x100000000000 { assert(0x1_0000_0000_0000_0000int % 0x100000000000int == 0) by (compute_only); }
    if a == 0x200000000000 { assert(0x1_0000_0000_0000_0000int % 0x200000000000int == 0) by (compute_only); }
    if a == 0x400000000000 { assert(0x1_0000_0000_0000_0000int % 0x400000000000int == 0) by (compute_only); }
    if a == 0x800000000000 { assert(0x1_0000_0000_0000_0000int % 0x800000000000int == 0) by (compute_only); }
    if a == 0x1000000000000 { assert(0x1_0000_0000_0000_0000int % 0x1000000000000int == 0) by (compute_only); }
    if a == 0x2000000000000 { assert(0x1_0000_0000_0000_0000int % 0x2000000000000int == 0) by (compute_only); }
    if a == 0x4000000000000 { assert(0x1_0000_0000_0000_0000int % 0x4000000000000int == 0) by (compute_only); }
    if a == 0x8000000000000 { assert(0x1_0000_0000_0000_0000int % 0x8000000000000int == 0) by (compute_only); }
    if a == 0x10000000000000 { assert(0x1_0000_0000_0000_0000int % 0x10000000000000int == 0) by (compute_only); }
    if a == 0x20000000000000 { assert(0x1_0000_0000_0000_0000int % 0x20000000000000int == 0) by (compute_only); }
    if a == 0x40000000000000 { assert(0x1_0000_0000_0000_0000int % 0x40000000000000int == 0) by (compute_only); }
    if a == 0x80000000000000 { assert(0x1_0000_0000_0000_0000int % 0x80000000000000int == 0) by (compute_only); }
    if a == 0x100000000000000 { assert(0x1_0000_0000_0000_0000int % 0x100000000000000int == 0) by (compute_only); }
    if a == 0x200000000000000 { assert(0x1_0000_0000_0000_0000int % 0x200000000000000int == 0) by (compute_only); }
    if a == 0x400000000000000 { assert(0x1_0000_0000_0000_0000int % 0x400000000000000int == 0) by (compute_only); }
    if a == 0x800000000000000 { assert(0x1_0000_0000_0000_0000int % 0x800000000000000int == 0) by (compute_only); }
    if a == 0x1000000000000000 { assert(0x1_0000_0000_0000_0000int % 0x1000000000000000int == 0) by (compute_only); }
    if a == 0x2000000000000000 { assert(0x1_0000_0000_0000_0000int % 0x2000000000000000int == 0) by (compute_only); }
    if a == 0x4000000000000000 { assert(0x1_0000_0000_0000_0000int % 0x4000000000000000int == 0) by (compute_only); }
    if a == 0x8000000000000000 { assert(0x1_0000_0000_0000_0000int % 0x8000000000000000int == 0) by (compute_only); }
}

proof fn lemma_mod_shift(w: int, k: int, a: int)
    requires a > 0, w % a == 0, k % a == 0,
    ensures (w + k) % a == 0,
{
    vstd::arithmetic::div_mod::lemma_fundamental_div_mod(w, a);
    vstd::arithmetic::div_mod::lemma_fundamental_div_mod(k, a);
    let q = w / a + k / a;
    assert(w + k == a * q) by (nonlinear_arith) requires w == a * (w / a) + w % a, k == a * (k / a) + k % a, w % a == 0, k % a == 0, q == w / a + k / a;
    vstd::arithmetic::div_mod::lemma_mod_multiples_basic(q, a);
    assert((a * q) % a == 0) by (nonlinear_arith) requires (q * a) % a == 0;
}

/// arithmetic: a gap below the unit that completes v to a multiple is pad_spec
proof fn lemma_gap_unique(v: int, a: int, r: int)
    requires a > 0, v >= 0, 0 <= r < a, (v + r) % a == 0,
    ensures r == pad_spec(v, a),
{
    let m = v % a;
    assert(0 <= m < a) by (nonlinear_arith) requires a > 0, m == v % a;
    vstd::arithmetic::div_mod::lemma_add_mod_noop(v, r, a);
    vstd::arithmetic::div_mod::lemma_small_mod(r as nat, a as nat);
    assert((m + r) % a == 0);
    if m + r < a {
        assert(m + r == 0) by (nonlinear_arith) requires 0 <= m + r < a, (m + r) % a == 0, a > 0;
        assert((a - 0) % a == 0) by (nonlinear_arith) requires a > 0;
    } else {
        assert(m + r == a) by (nonlinear_arith) requires a <= m + r < 2 * a, (m + r) % a == 0, a > 0;
        assert((a - m) % a == a - m) by (nonlinear_arith) requires 0 < a - m < a;
    }
}

/// pad_spec is what the statement says: below the unit, completes to a
/// multiple, and no smaller gap does.
pub proof fn lemma_pad_spec_minimal(v: int, a: int)
    requires a > 0, v >= 0,
    ensures 0 <= pad_spec(v, a) < a,
            (v + pad_spec(v, a)) % a == 0,
            forall|g: int| 0 <= g < pad_spec(v, a) ==> !#[trigger] completes(v, g, a),
{
    let m = v % a;
    let p = pad_spec(v, a);
    assert(0 <= m < a) by (nonlinear_arith) requires a > 0, m == v % a;
    assert(0 <= p < a) by (nonlinear_arith) requires a > 0, p == (a - m) % a;
    if m == 0 {
        assert(p == 0) by (nonlinear_arith) requires p == (a - 0) % a, a > 0;
    } else {
        assert(p == a - m) by (nonlinear_arith) requires p == (a - m) % a, 0 < a - m < a;
        vstd::arithmetic::div_mod::lemma_fundamental_div_mod(v, a);
        let q = v / a;
        assert(v + (a - m) == a * (q + 1)) by (nonlinear_arith) requires v == a * q + m;
        vstd::arithmetic::div_mod::lemma_mod_multiples_basic(q + 1, a);
        assert((a * (q + 1)) % a == 0) by (nonlinear_arith) requires ((q + 1) * a) % a == 0;
    }
    assert forall|g: int| 0 <= g < p implies !#[trigger] completes(v, g, a) by {
        if (v + g) % a == 0 {
            lemma_gap_unique(v, a, g);
        }
    }
}

