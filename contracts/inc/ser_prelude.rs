pub open spec fn zeros(n: nat) -> Seq<u8> { Seq::new(n, |i: int| 0u8) }

pub open spec fn is_prefix(a: Seq<u8>, b: Seq<u8>) -> bool {
    a.len() <= b.len() && a =~= b.take(a.len() as int)
}

/// a failure while writing the i-th zero of a gap leaves a prefix of the gap
proof fn lemma_gap_prefix(sink0: Seq<u8>, i: nat, pad: nat, s2: Seq<u8>)
    requires i < pad,
        is_prefix(sink0 + zeros(i), s2),
        is_prefix(s2, sink0 + zeros(i) + seq![0u8]),
    ensures is_prefix(sink0, s2), is_prefix(s2, sink0 + zeros(pad)),
{
    let cur = sink0 + zeros(i);
    assert(cur + seq![0u8] =~= sink0 + zeros(i + 1));
    assert(sink0 =~= s2.take(sink0.len() as int)) by {
        assert(cur =~= s2.take(cur.len() as int));
        assert forall|j: int| 0 <= j < sink0.len() implies sink0[j] == s2[j] by {
            assert(cur[j] == s2.take(cur.len() as int)[j]);
        }
    }
    assert(s2 =~= (sink0 + zeros(pad)).take(s2.len() as int)) by {
        assert(s2 =~= (sink0 + zeros(i + 1)).take(s2.len() as int));
        assert forall|j: int| 0 <= j < s2.len() implies s2[j] == (sink0 + zeros(pad))[j] by {
            assert(s2[j] == (sink0 + zeros(i + 1)).take(s2.len() as int)[j]);
        }
    }
}


// std combinators that plausible rewrites of the serialization code use
// (arguments are evaluated eagerly, as in Rust)
pub assume_specification<T, E, U>[ core::result::Result::<T, E>::and ](a: core::result::Result<T, E>, b: core::result::Result<U, E>) -> (r: core::result::Result<U, E>)
    ensures r == (match a { Ok(_) => b, Err(e) => Err(e) });
pub assume_specification[ <u8 as core::convert::From<bool>>::from ](b: bool) -> (r: u8)
    ensures r == (if b { 1u8 } else { 0u8 });
