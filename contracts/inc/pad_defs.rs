// ---- specification (from the property statement, not from the code) -------

/// `a` is a power of two representable in 64 bits.
pub open spec fn is_pow2(a: int) -> bool {
    a == 0x1 || a == 0x2 || a == 0x4 || a == 0x8 || a == 0x10 || a == 0x20 || a == 0x40 || a == 0x80
    || a == 0x100 || a == 0x200 || a == 0x400 || a == 0x800 || a == 0x1000 || a == 0x2000 || a == 0x4000 || a == 0x8000
    || a == 0x1_0000 || a == 0x2_0000 || a == 0x4_0000 || a == 0x8_0000 || a == 0x10_0000 || a == 0x20_0000 || a == 0x40_0000 || a == 0x80_0000
    || a == 0x100_0000 || a == 0x200_0000 || a == 0x400_0000 || a == 0x800_0000 || a == 0x1000_0000 || a == 0x2000_0000 || a == 0x4000_0000 || a == 0x8000_0000
    || a == 0x1_0000_0000 || a == 0x2_0000_0000 || a == 0x4_0000_0000 || a == 0x8_0000_0000
    || a == 0x10_0000_0000 || a == 0x20_0000_0000 || a == 0x40_0000_0000 || a == 0x80_0000_0000
    || a == 0x100_0000_0000 || a == 0x200_0000_0000 || a == 0x400_0000_0000 || a == 0x800_0000_0000
    || a == 0x1000_0000_0000 || a == 0x2000_0000_0000 || a == 0x4000_0000_0000 || a == 0x8000_0000_0000
    || a == 0x1_0000_0000_0000 || a == 0x2_0000_0000_0000 || a == 0x4_0000_0000_0000 || a == 0x8_0000_0000_0000
    || a == 0x10_0000_0000_0000 || a == 0x20_0000_0000_0000 || a == 0x40_0000_0000_0000 || a == 0x80_0000_0000_0000
    || a == 0x100_0000_0000_0000 || a == 0x200_0000_0000_0000 || a == 0x400_0000_0000_0000 || a == 0x800_0000_0000_0000
    || a == 0x1000_0000_0000_0000 || a == 0x2000_0000_0000_0000 || a == 0x4000_0000_0000_0000 || a == 0x8000_0000_0000_0000
}

/// The gap the format prescribes before a block with unit `a` at offset `v`:
/// the smallest g >= 0 with (v + g) a multiple of a.
pub open spec fn pad_spec(v: int, a: int) -> int {
    (a - v % a) % a
}
pub open spec fn completes(v: int, g: int, a: int) -> bool {
    (v + g) % a == 0
}

/// std: two's complement negation.
pub assume_specification[ usize::wrapping_neg ](x: usize) -> (r: usize)
    ensures r as int == (if x == 0 { 0int } else { 0x1_0000_0000_0000_0000int - x as int });

