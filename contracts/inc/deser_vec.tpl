// =========================================================================
// Vec<T> and Box<[T]>: the dispatch implementations (impls/vec.rs,
// impls/boxed_slice.rs) over DeserializeHelper<Zero | Deep>.
//
// A spec-level value of type Vec<T> needs a constructor from a sequence: `vec_of`,
// with the extensionality of vectors as an axiom (a vector is determined by its
// view; capacity and address are not observable in specifications).
// The Deep helper implementations are verified; the Zero ones (element bytes
// reinterpreted through `unsafe`) are assumed contracts - their control skeleton
// is what deserialize_full_vec_zero / deserialize_eps_slice_zero are verified for,
// their contents are Kani's (rt_full_vec_*, rt_eps_vec_*).
// =========================================================================

pub uninterp spec fn vec_of<T>(s: Seq<T>) -> Vec<T>;
pub axiom fn axiom_vec_of<T>()
    ensures forall|s: Seq<T>| s.len() <= usize::MAX ==> (#[trigger] vec_of(s))@ == s,
        forall|v: Vec<T>| vec_of(#[trigger] v@) == v;

pub open spec fn pr_map<A, B>(p: PR<A>, f: spec_fn(A) -> B) -> PR<B> {
    match p {
        PR::Val(v, n) => PR::Val(f(v), n),
        PR::BadTag(t) => PR::BadTag(t),
        PR::Short => PR::Short,
    }
}

/// pointer-width length, minimal gap to a multiple of T's unit, len * size_of::<T>() bytes
pub open spec fn parse_seq_zero<T: MaxSizeOf>(s: Seq<u8>, pos: nat) -> PR<Seq<T>> {
    if s.len() < 8 { PR::Short }
    else {
        let len = usize_of(s.take(8)) as nat;
        let pad = seq_zero_pad::<T>(pos);
        let bytes = len * vstd::layout::size_of::<T>();
        if s.len() < seq_zero_span::<T>(pos, len) { PR::Short }
        else { PR::Val(zc_seq::<T>(s.skip(8).skip(pad as int).take(bytes as int), len), seq_zero_span::<T>(pos, len)) }
    }
}

proof fn lemma_seq_zero_prefix<T: MaxSizeOf>(s: Seq<u8>, pos: nat, k: nat)
    requires parse_seq_zero::<T>(s, pos) is Val, k <= s.len(),
    ensures parse_seq_zero::<T>(s, pos)->Val_1 <= s.len(),
        k < parse_seq_zero::<T>(s, pos)->Val_1 ==> parse_seq_zero::<T>(s.take(k as int), pos) is Short,
        k >= parse_seq_zero::<T>(s, pos)->Val_1 ==> parse_seq_zero::<T>(s.take(k as int), pos) == parse_seq_zero::<T>(s, pos),
{
    let len = usize_of(s.take(8)) as nat;
    let pad = seq_zero_pad::<T>(pos);
    let bytes = len * vstd::layout::size_of::<T>();
    if k >= 8 {
        assert(s.take(k as int).take(8) =~= s.take(8));
        if k >= 8 + pad + bytes {
            assert(s.take(k as int).skip(8).skip(pad as int).take(bytes as int) =~= s.skip(8).skip(pad as int).take(bytes as int));
        }
    }
}

//@item epserde/src/deser/mod.rs props=C01,C02,C11 name=DeserializeHelper <<pub trait DeserializeHelper<T: CopySelector> {>>
//@  body_prefix
//@|    /// the published encoding of the sequence, as a parser (ghost)
//@|    spec fn parse_impl(s: Seq<u8>, pos: nat) -> PR<Self::FullType>;
//@|    spec fn eps_rel_impl<'a>(d: Self::DeserType<'a>, v: Self::FullType) -> bool;
//@|    proof fn lemma_prefix_impl(s: Seq<u8>, pos: nat, k: nat)
//@|        requires Self::parse_impl(s, pos) is Val, k <= s.len(),
//@|        ensures Self::parse_impl(s, pos)->Val_1 <= s.len(),
//@|            k < Self::parse_impl(s, pos)->Val_1 ==> Self::parse_impl(s.take(k as int), pos) is Short,
//@|            k >= Self::parse_impl(s, pos)->Val_1 ==> Self::parse_impl(s.take(k as int), pos) == Self::parse_impl(s, pos);
//@  sub <<fn _deserialize_full_inner_impl(backend: &mut impl ReadWithPos) -> Result<Self::FullType>;>>
//@  impl_arg
//@  ret r
//@  spec
//@|        requires old(backend).wf(),
//@|            old(backend).is_slice() ==> !(Self::parse_impl(old(backend).rem(), old(backend).rpos()) is Short),
//@|        ensures final(backend).wf(),
//@|            final(backend).reliable() == old(backend).reliable(),
//@|            final(backend).is_slice() == old(backend).is_slice(),
//@|            final(backend).rem().len() <= old(backend).rem().len(),
//@|            full_post::<Self::FullType, ImplArg0>(Self::parse_impl(old(backend).rem(), old(backend).rpos()), old(backend), final(backend), r),
//@  sub <<fn _deserialize_eps_inner_impl<'a>(>>
//@  ret r
//@  spec
//@|        requires slice_wf(old(backend)),
//@|            !(Self::parse_impl(old(backend).data@, old(backend).pos as nat) is Short),
//@|        ensures slice_wf(final(backend)),
//@|            final(backend).data@.len() <= old(backend).data@.len(),
//@|            match Self::parse_impl(old(backend).data@, old(backend).pos as nat) {
//@|                PR::Val(v, n) => match r {
//@|                    Ok(d) => Self::eps_rel_impl(d, v)
//@|                        && n <= old(backend).data@.len()
//@|                        && final(backend).data@ =~= old(backend).data@.skip(n as int)
//@|                        && final(backend).pos == old(backend).pos + n,
//@|                    Err(e) => e is AlignmentError,
//@|                },
//@|                PR::BadTag(t) => match r {
//@|                    Ok(_) => false,
//@|                    Err(e) => e is AlignmentError || e == Error::InvalidTag(t),
//@|                },
//@|                PR::Short => true,
//@|            },
//@end

//@item epserde/src/impls/vec.rs name=Vec::CopyType <<impl<T> CopyType for Vec<T> {>>
//@end

//@item epserde/src/impls/vec.rs props=C01,C02,C11 name=Vec::DeserializeInner <<impl<T: CopyType + DeserializeInner> DeserializeInner for Vec<T>>>
//@  replace <<deser::Result>> <<Result>>
//@  body_prefix
//@|    open spec fn parse(s: Seq<u8>, pos: nat) -> PR<Self> { <Vec<T> as DeserializeHelper<<T as CopyType>::Copy>>::parse_impl(s, pos) }
//@|    open spec fn eps_rel<'a>(d: Self::DeserType<'a>, v: Self) -> bool { <Vec<T> as DeserializeHelper<<T as CopyType>::Copy>>::eps_rel_impl(d, v) }
//@|    proof fn lemma_prefix(s: Seq<u8>, pos: nat, k: nat) { <Vec<T> as DeserializeHelper<<T as CopyType>::Copy>>::lemma_prefix_impl(s, pos, k); }
//@  sub <<fn _deserialize_full_inner(backend: &mut impl ReadWithPos) -> deser::Result<Self> {>>
//@  impl_arg
//@  ret r
//@  sub <<fn _deserialize_eps_inner<'a>(>>
//@  ret r
//@end

//@item epserde/src/impls/vec.rs props=C01,C02 name=Vec::DeserializeHelper<Zero> <<impl<T: ZeroCopy + DeserializeInner> DeserializeHelper<Zero> for Vec<T> {>>
//@  replace <<deser::Result>> <<Result>>
//@  replace_opt <<deserialize_full_vec_zero::<T>>> <<deserialize_full_vec_zero::<T, _>>>
//@  body_prefix
//@|    open spec fn parse_impl(s: Seq<u8>, pos: nat) -> PR<Vec<T>> { pr_map(parse_seq_zero::<T>(s, pos), |vs: Seq<T>| vec_of(vs)) }
//@|    open spec fn eps_rel_impl<'a>(d: &'a [T], v: Vec<T>) -> bool { d@ == v@ }
//@|    proof fn lemma_prefix_impl(s: Seq<u8>, pos: nat, k: nat) { lemma_seq_zero_prefix::<T>(s, pos, k); }
//@  sub <<fn _deserialize_full_inner_impl(backend: &mut impl ReadWithPos) -> deser::Result<Self> {>>
//@  impl_arg
//@  ret r
//@  body_prefix
//@|        proof { axiom_u8_size(); axiom_vec_of::<T>(); axiom_zc_image::<T>(); axiom_zc_seq::<T>(); }
//@  sub <<fn _deserialize_eps_inner_impl<'a>(>>
//@  ret r
//@  external_body
//@end

//@item epserde/src/impls/vec.rs props=C01,C02,C11 name=Vec::DeserializeHelper<Deep> <<impl<T: DeepCopy + DeserializeInner> DeserializeHelper<Deep> for Vec<T> {>>
//@  replace <<deser::Result>> <<Result>>
//@  replace_opt <<deserialize_full_vec_deep::<T>>> <<deserialize_full_vec_deep::<T, _>>>
//@  body_prefix
//@|    open spec fn parse_impl(s: Seq<u8>, pos: nat) -> PR<Vec<T>> { pr_map(parse_seq_deep::<T>(s, pos), |vs: Seq<T>| vec_of(vs)) }
//@|    open spec fn eps_rel_impl<'a>(d: Vec<<T as DeserializeInner>::DeserType<'a>>, v: Vec<T>) -> bool { eps_rel_seq::<T>(d@, v@) }
//@|    proof fn lemma_prefix_impl(s: Seq<u8>, pos: nat, k: nat) { lemma_seq_deep_prefix::<T>(s, pos, k); }
//@  sub <<fn _deserialize_full_inner_impl(backend: &mut impl ReadWithPos) -> deser::Result<Self> {>>
//@  impl_arg
//@  ret r
//@  body_prefix
//@|        proof { axiom_vec_of::<T>(); }
//@  sub <<fn _deserialize_eps_inner_impl<'a>(>>
//@  ret r
//@  body_prefix
//@|        proof {
//@|            axiom_vec_of::<T>();
//@|            let s = backend.data@;
//@|            let pos = backend.pos as nat;
//@|            if parse_seq_deep::<T>(s, pos) is Val { lemma_items_len::<T>(s.skip(8), pos + 8, usize::parse(s, pos)->Val_0 as nat); }
//@|        }
//@end

// ---- Box<[T]> (impls/boxed_slice.rs): the same dispatch, the vector is boxed at the end ----

pub uninterp spec fn box_of<T>(s: Seq<T>) -> Box<[T]>;
pub axiom fn axiom_box_of<T>()
    ensures forall|s: Seq<T>| s.len() <= usize::MAX ==> (#[trigger] box_of(s))@ == s,
        forall|v: Box<[T]>| box_of(#[trigger] v@) == v;

/// std: boxing a vector keeps its elements
pub assume_specification<T, A: Allocator>[ Vec::<T, A>::into_boxed_slice ](v: Vec<T, A>) -> (r: Box<[T], A>)
    ensures r@ == v@;

//@item epserde/src/impls/boxed_slice.rs name=BoxSlice::CopyType <<impl<T> CopyType for Box<[T]> {>>
//@end

//@item epserde/src/impls/boxed_slice.rs props=C01,C02,C11 name=BoxSlice::DeserializeInner <<impl<T: DeserializeInner + CopyType> DeserializeInner for Box<[T]>>>
//@  replace <<deser::Result>> <<Result>>
//@  body_prefix
//@|    open spec fn parse(s: Seq<u8>, pos: nat) -> PR<Self> { <Box<[T]> as DeserializeHelper<<T as CopyType>::Copy>>::parse_impl(s, pos) }
//@|    open spec fn eps_rel<'a>(d: Self::DeserType<'a>, v: Self) -> bool { <Box<[T]> as DeserializeHelper<<T as CopyType>::Copy>>::eps_rel_impl(d, v) }
//@|    proof fn lemma_prefix(s: Seq<u8>, pos: nat, k: nat) { <Box<[T]> as DeserializeHelper<<T as CopyType>::Copy>>::lemma_prefix_impl(s, pos, k); }
//@  sub <<fn _deserialize_full_inner(backend: &mut impl ReadWithPos) -> deser::Result<Self> {>>
//@  impl_arg
//@  ret r
//@  sub <<fn _deserialize_eps_inner<'a>(>>
//@  ret r
//@end

//@item epserde/src/impls/boxed_slice.rs props=C01,C02 name=BoxSlice::DeserializeHelper<Zero> <<impl<T: ZeroCopy + DeserializeInner> DeserializeHelper<Zero> for Box<[T]> {>>
//@  replace <<deser::Result>> <<Result>>
//@  replace_opt <<deserialize_full_vec_zero::<T>>> <<deserialize_full_vec_zero::<T, _>>>
//@  body_prefix
//@|    open spec fn parse_impl(s: Seq<u8>, pos: nat) -> PR<Box<[T]>> { pr_map(parse_seq_zero::<T>(s, pos), |vs: Seq<T>| box_of(vs)) }
//@|    open spec fn eps_rel_impl<'a>(d: &'a [T], v: Box<[T]>) -> bool { d@ == v@ }
//@|    proof fn lemma_prefix_impl(s: Seq<u8>, pos: nat, k: nat) { lemma_seq_zero_prefix::<T>(s, pos, k); }
//@  sub <<fn _deserialize_full_inner_impl(backend: &mut impl ReadWithPos) -> deser::Result<Self> {>>
//@  impl_arg
//@  ret r
//@  body_prefix
//@|        proof { axiom_u8_size(); axiom_box_of::<T>(); axiom_zc_image::<T>(); axiom_zc_seq::<T>(); }
//@  sub <<fn _deserialize_eps_inner_impl<'a>(>>
//@  ret r
//@  external_body
//@end

//@item epserde/src/impls/boxed_slice.rs props=C01,C02,C11 name=BoxSlice::DeserializeHelper<Deep> <<impl<T: DeepCopy + DeserializeInner> DeserializeHelper<Deep> for Box<[T]> {>>
//@  replace <<deser::Result>> <<Result>>
//@  replace_opt <<deserialize_full_vec_deep::<T>>> <<deserialize_full_vec_deep::<T, _>>>
//@  body_prefix
//@|    open spec fn parse_impl(s: Seq<u8>, pos: nat) -> PR<Box<[T]>> { pr_map(parse_seq_deep::<T>(s, pos), |vs: Seq<T>| box_of(vs)) }
//@|    open spec fn eps_rel_impl<'a>(d: Box<[<T as DeserializeInner>::DeserType<'a>]>, v: Box<[T]>) -> bool { eps_rel_seq::<T>(d@, v@) }
//@|    proof fn lemma_prefix_impl(s: Seq<u8>, pos: nat, k: nat) { lemma_seq_deep_prefix::<T>(s, pos, k); }
//@  sub <<fn _deserialize_full_inner_impl(backend: &mut impl ReadWithPos) -> deser::Result<Self> {>>
//@  impl_arg
//@  ret r
//@  body_prefix
//@|        proof { axiom_box_of::<T>(); }
//@  sub <<fn _deserialize_eps_inner_impl<'a>(>>
//@  ret r
//@  body_prefix
//@|        proof {
//@|            axiom_box_of::<T>();
//@|            let s = backend.data@;
//@|            let pos = backend.pos as nat;
//@|            if parse_seq_deep::<T>(s, pos) is Val { lemma_items_len::<T>(s.skip(8), pos + 8, usize::parse(s, pos)->Val_0 as nat); }
//@|        }
//@end


// =========================================================================
// String (impls/string.rs): a sequence of bytes (unit 1: no gap), read through the
// zero-copy sequence reader, then validated. `String::from_utf8(v).unwrap()` either
// returns the string of those bytes or panics (invalid UTF-8 is outside every
// property's quantifier): recorded replacement by an assumed partial function.
// The eps-copy half (`transmute` of the carved slice) is an assumed contract.
// =========================================================================

/// the string of UTF-8 bytes / the UTF-8 bytes of a string (uninterpreted)
pub uninterp spec fn string_of(b: Seq<u8>) -> String;
pub uninterp spec fn str_bytes(s: String) -> Seq<u8>;
pub axiom fn axiom_str_bytes()
    ensures forall|s: String| string_of(#[trigger] str_bytes(s)) == s && str_bytes(s).len() <= usize::MAX;

/// `String::from_utf8(v)`: recorded replacement of the constructor path by an assumed
/// function whose result type has its own `unwrap` - vstd's `Result::unwrap` demands a
/// proof that the result is `Ok`, which would make "panics on invalid UTF-8" unprovable
pub struct Utf8R { pub r: core::result::Result<String, ()> }
pub uninterp spec fn utf8r_bytes(x: Utf8R) -> Seq<u8>;
#[verifier::external_body]
pub fn assumed_from_utf8(v: Vec<u8>) -> (r: Utf8R)
    ensures utf8r_bytes(r) == v@,
{ unimplemented!() }
impl Utf8R {
    /// returns the string of the bytes, or does not return (panic)
    #[verifier::external_body]
    pub fn unwrap(self) -> (r: String)
        ensures r == string_of(utf8r_bytes(self)),
    { unimplemented!() }
}

/// the macro-generated impls of u8 (impls/prim.rs), as V-TYPEINFO verifies them from the
/// compiler's expansion: copy kind Zero, unit 1
impl CopyType for u8 {
    type Copy = Zero;
}
impl MaxSizeOf for u8 {
    open spec fn unit() -> nat { 1 }
    #[verifier::external_body]
    fn max_size_of() -> (r: usize) { unimplemented!() }
}
/// likewise for the other integer primitives (so that code that aligns to one of them is
/// decided rather than rejected)
macro_rules! assumed_unit {
    ($($t:ty => $n:expr),*) => {$(
        verus! {
        impl CopyType for $t {
            type Copy = Zero;
        }
        impl MaxSizeOf for $t {
            open spec fn unit() -> nat { $n }
            #[verifier::external_body]
            fn max_size_of() -> (r: usize) { unimplemented!() }
        }
        }
    )*};
}
assumed_unit!(u16 => 2, u32 => 4, u64 => 8, u128 => 16, usize => 8, i8 => 1, i16 => 2, i32 => 4, i64 => 8, i128 => 16, isize => 8);

/// a byte is its own memory image
pub axiom fn axiom_image_u8()
    ensures forall|b: Seq<u8>| #[trigger] image_seq::<u8>(b) == b;

//@item epserde/src/impls/string.rs props=C01,C02,C11 name=String::DeserializeInner <<impl DeserializeInner for String {>>
//@  replace <<deser::Result>> <<Result>>
//@  replace <<String::from_utf8>> <<assumed_from_utf8>>
//@  replace_opt <<deserialize_full_vec_zero::<u8>>> <<deserialize_full_vec_zero::<u8, _>>>
//@  body_prefix
//@|    open spec fn parse(s: Seq<u8>, pos: nat) -> PR<Self> { pr_map(parse_seq_zero::<u8>(s, pos), |b: Seq<u8>| string_of(b)) }
//@|    open spec fn eps_rel<'a>(d: &'a str, v: Self) -> bool { d@ == v@ }
//@|    proof fn lemma_prefix(s: Seq<u8>, pos: nat, k: nat) { lemma_seq_zero_prefix::<u8>(s, pos, k); }
//@  sub <<fn _deserialize_full_inner(backend: &mut impl ReadWithPos) -> deser::Result<Self> {>>
//@  impl_arg
//@  ret r
//@  body_prefix
//@|        proof { axiom_u8_size(); axiom_zc_image::<u8>(); axiom_zc_seq::<u8>(); axiom_image_u8(); }
//@  sub <<fn _deserialize_eps_inner<'a>(>>
//@  ret r
//@  external_body
//@end

// =========================================================================
// char (impls/prim.rs): written as its scalar value (u32); `char::from_u32(x).unwrap()`
// returns the character of a valid scalar value or does not return (recorded
// replacement of the constructor path, as for String::from_utf8)
// =========================================================================

pub struct CharR { pub x: u32 }
#[verifier::external_body]
pub fn assumed_char_from_u32(x: u32) -> (r: CharR)
    ensures r.x == x,
{ unimplemented!() }
impl CharR {
    /// the character with this scalar value, or no return (panic)
    #[verifier::external_body]
    pub fn unwrap(self) -> (r: char)
        ensures r as u32 == self.x,
    { unimplemented!() }
}

//@item epserde/src/impls/prim.rs props=C01,C02,C11 name=char::DeserializeInner optional <<impl DeserializeInner for char {>>
//@  replace <<deser::Result>> <<Result>>
//@  replace <<char::from_u32>> <<assumed_char_from_u32>>
//@  body_prefix
//@|    /// four bytes: the scalar value
//@|    open spec fn parse(s: Seq<u8>, pos: nat) -> PR<Self> {
//@|        if s.len() < 4 { PR::Short } else { PR::Val(char_of(u32_of(s.take(4))), 4) }
//@|    }
//@|    open spec fn eps_rel<'a>(d: Self, v: Self) -> bool { d == v }
//@|    proof fn lemma_prefix(s: Seq<u8>, pos: nat, k: nat) {
//@|        if k >= 4 { assert(s.take(k as int).take(4) =~= s.take(4)); }
//@|    }
//@  sub <<fn _deserialize_full_inner(backend: &mut impl ReadWithPos) -> deser::Result<Self> {>>
//@  impl_arg
//@  ret r
//@  body_prefix
//@|        proof { axiom_char_of(); }
//@  sub <<fn _deserialize_eps_inner<'a>(>>
//@  ret r
//@  body_prefix
//@|        proof { axiom_char_of(); }
//@end

/// the character of a scalar value (uninterpreted outside the valid range)
pub uninterp spec fn char_of(x: u32) -> char;
pub axiom fn axiom_char_of()
    ensures forall|c: char| #[trigger] char_of(c as u32) == c;
