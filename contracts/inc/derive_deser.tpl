assumed_prim!(u16, u16_of, 2);
assumed_prim!(i32, i32_of, 4);
pub uninterp spec fn u16_of(s: Seq<u8>) -> u16;
pub uninterp spec fn i32_of(s: Seq<u8>) -> i32;

// Option<T> under its V-DESER contract (proved there for all T, assumed here)
impl<T: DeserializeInner> DeserializeInner for Option<T> {
    type DeserType<'a> = Option<<T as DeserializeInner>::DeserType<'a>>;
    open spec fn parse(s: Seq<u8>, pos: nat) -> PR<Self> {
        if s.len() < 1 { PR::Short }
        else if s[0] == 0 { PR::Val(None, 1) }
        else if s[0] == 1 { match T::parse(s.skip(1), pos + 1) {
            PR::Val(v, n) => PR::Val(Some(v), n + 1), PR::BadTag(t) => PR::BadTag(t), PR::Short => PR::Short } }
        else { PR::BadTag(s[0] as usize) }
    }
    open spec fn eps_rel<'a>(d: Option<<T as DeserializeInner>::DeserType<'a>>, v: Self) -> bool {
        match (d, v) { (None, None) => true, (Some(a), Some(b)) => T::eps_rel(a, b), _ => false }
    }
    /// proved in V-DESER for all T, assumed here
    #[verifier::external_body]
    proof fn lemma_prefix(s: Seq<u8>, pos: nat, k: nat) {}
    #[verifier::external_body]
    fn _deserialize_full_inner<R: ReadWithPos>(backend: &mut R) -> (r: Result<Self>) { unimplemented!() }
    #[verifier::external_body]
    fn _deserialize_eps_inner<'a>(backend: &mut SliceWithPos<'a>) -> (r: Result<Self::DeserType<'a>>) { unimplemented!() }
}

/// continue after `n0` bytes with one field
pub open spec fn then1<A: DeserializeInner, S>(s: Seq<u8>, pos: nat, n0: nat, mk: spec_fn(A) -> S) -> PR<S> {
    match A::parse(s.skip(n0 as int), pos + n0) {
        PR::Val(a, n) => PR::Val(mk(a), n0 + n),
        PR::BadTag(t) => PR::BadTag(t),
        PR::Short => PR::Short,
    }
}
/// continue after `n0` bytes with two fields
pub open spec fn then2<A: DeserializeInner, B: DeserializeInner, S>(s: Seq<u8>, pos: nat, n0: nat, mk: spec_fn(A, B) -> S) -> PR<S> {
    match A::parse(s.skip(n0 as int), pos + n0) {
        PR::Val(a, n) => match B::parse(s.skip(n0 as int).skip(n as int), pos + n0 + n) {
            PR::Val(b, m) => PR::Val(mk(a, b), n0 + n + m),
            PR::BadTag(t) => PR::BadTag(t),
            PR::Short => PR::Short,
        },
        PR::BadTag(t) => PR::BadTag(t),
        PR::Short => PR::Short,
    }
}

/// two fields one after the other, from the start
pub open spec fn fields2<A: DeserializeInner, B: DeserializeInner, S>(s: Seq<u8>, pos: nat, mk: spec_fn(A, B) -> S) -> PR<S> {
    match A::parse(s, pos) {
        PR::Val(a, n) => match B::parse(s.skip(n as int), pos + n) {
            PR::Val(b, m) => PR::Val(mk(a, b), n + m),
            PR::BadTag(t) => PR::BadTag(t),
            PR::Short => PR::Short,
        },
        PR::BadTag(t) => PR::BadTag(t),
        PR::Short => PR::Short,
    }
}

proof fn lemma_then1<A: DeserializeInner, S>(s: Seq<u8>, pos: nat, n0: nat, k: nat, mk: spec_fn(A) -> S)
    requires then1::<A, S>(s, pos, n0, mk) is Val, n0 <= k <= s.len(),
    ensures then1::<A, S>(s, pos, n0, mk)->Val_1 <= s.len(),
        k < then1::<A, S>(s, pos, n0, mk)->Val_1 ==> then1::<A, S>(s.take(k as int), pos, n0, mk) is Short,
        k >= then1::<A, S>(s, pos, n0, mk)->Val_1 ==> then1::<A, S>(s.take(k as int), pos, n0, mk) == then1::<A, S>(s, pos, n0, mk),
{
    A::lemma_prefix(s.skip(n0 as int), pos + n0, (k - n0) as nat);
    assert(s.take(k as int).skip(n0 as int) =~= s.skip(n0 as int).take(k - n0));
}
proof fn lemma_then2<A: DeserializeInner, B: DeserializeInner, S>(s: Seq<u8>, pos: nat, n0: nat, k: nat, mk: spec_fn(A, B) -> S)
    requires then2::<A, B, S>(s, pos, n0, mk) is Val, n0 <= k <= s.len(),
    ensures then2::<A, B, S>(s, pos, n0, mk)->Val_1 <= s.len(),
        k < then2::<A, B, S>(s, pos, n0, mk)->Val_1 ==> then2::<A, B, S>(s.take(k as int), pos, n0, mk) is Short,
        k >= then2::<A, B, S>(s, pos, n0, mk)->Val_1 ==> then2::<A, B, S>(s.take(k as int), pos, n0, mk) == then2::<A, B, S>(s, pos, n0, mk),
{
    let s0 = s.skip(n0 as int);
    A::lemma_prefix(s0, pos + n0, (k - n0) as nat);
    assert(s.take(k as int).skip(n0 as int) =~= s0.take(k - n0));
    let n = A::parse(s0, pos + n0)->Val_1;
    B::lemma_prefix(s0.skip(n as int), pos + n0 + n, if k >= n0 + n { (k - n0 - n) as nat } else { 0 });
    if k >= n0 + n {
        assert(s0.take(k - n0).skip(n as int) =~= s0.skip(n as int).take(k - n0 - n));
    }
}
proof fn lemma_fields2<A: DeserializeInner, B: DeserializeInner, S>(s: Seq<u8>, pos: nat, k: nat, mk: spec_fn(A, B) -> S)
    requires fields2::<A, B, S>(s, pos, mk) is Val, k <= s.len(),
    ensures fields2::<A, B, S>(s, pos, mk)->Val_1 <= s.len(),
        k < fields2::<A, B, S>(s, pos, mk)->Val_1 ==> fields2::<A, B, S>(s.take(k as int), pos, mk) is Short,
        k >= fields2::<A, B, S>(s, pos, mk)->Val_1 ==> fields2::<A, B, S>(s.take(k as int), pos, mk) == fields2::<A, B, S>(s, pos, mk),
{
    A::lemma_prefix(s, pos, k);
    let n = A::parse(s, pos)->Val_1;
    B::lemma_prefix(s.skip(n as int), pos + n, if k >= n { (k - n) as nat } else { 0 });
    if k >= n {
        assert(s.take(k as int).skip(n as int) =~= s.skip(n as int).take(k - n));
    }
}

// ---- the sample definitions (verbatim from kani-harness/src/types.rs) ----------

//@item @types name=E1 <<pub enum E1 {>>
//@end
//@item @types name=DT <<pub struct DT(pub u32, pub Option<u16>);>>
//@end
//@item @types name=GE <<pub enum GE<V> {>>
//@end
//@item @types name=G2 <<pub struct G2<T, U> {>>
//@end
//@item @types name=GM <<pub struct GM<T> {>>
//@end

//@item @derive props=C01,C02,C05,C11,C15 name=E1::DeserializeInner <<impl epserde::deser::DeserializeInner for E1<> where>>
//@  replace <<use epserde::deser::DeserializeInner;>> <<>>
//@  replace <<epserde::deser::>> <<>>
//@  body_prefix
//@|    open spec fn parse(s: Seq<u8>, pos: nat) -> PR<Self> {
//@|        // pointer-width variant index, then the fields of the variant in order
//@|        if s.len() < 8 { PR::Short }
//@|        else if usize_of(s.take(8)) == 0 { PR::Val(E1::A, 8) }
//@|        else if usize_of(s.take(8)) == 1 { then1::<u16, Self>(s, pos, 8, |v: u16| E1::B(v)) }
//@|        else if usize_of(s.take(8)) == 2 { then2::<u8, u32, Self>(s, pos, 8, |x: u8, y: u32| E1::C { x, y }) }
//@|        else if usize_of(s.take(8)) == 3 { PR::Val(E1::D, 8) }
//@|        else { PR::BadTag(usize_of(s.take(8))) }
//@|    }
//@|    open spec fn eps_rel<'a>(d: E1, v: Self) -> bool {
//@|        d == v
//@|    }
//@|    proof fn lemma_prefix(s: Seq<u8>, pos: nat, k: nat) {
//@|        let kk = if k >= 8 { k } else { 8 };
//@|        if k >= 8 { assert(s.take(k as int).take(8) =~= s.take(8)); }
//@|        if usize_of(s.take(8)) == 1 { lemma_then1::<u16, Self>(s, pos, 8, kk, |v: u16| E1::B(v)); }
//@|        if usize_of(s.take(8)) == 2 { lemma_then2::<u8, u32, Self>(s, pos, 8, kk, |x: u8, y: u32| E1::C { x, y }); }
//@|    }
//@  sub <<fn _deserialize_full_inner(backend:>>
//@  impl_arg
//@  ret r
//@  sub <<fn _deserialize_eps_inner<'deserialize_eps_inner_lifetime>(backend:>>
//@  ret r
//@end

//@item @derive props=C01,C02,C05,C11,C15 name=DT::DeserializeInner <<impl epserde::deser::DeserializeInner for DT<> where>>
//@  replace <<use epserde::deser::DeserializeInner;>> <<>>
//@  replace <<epserde::deser::>> <<>>
//@  body_prefix
//@|    open spec fn parse(s: Seq<u8>, pos: nat) -> PR<Self> {
//@|        fields2::<u32, Option<u16>, Self>(s, pos, |a: u32, b: Option<u16>| DT(a, b))
//@|    }
//@|    open spec fn eps_rel<'a>(d: DT, v: Self) -> bool {
//@|        d == v
//@|    }
//@|    proof fn lemma_prefix(s: Seq<u8>, pos: nat, k: nat) {
//@|        lemma_fields2::<u32, Option<u16>, Self>(s, pos, k, |a: u32, b: Option<u16>| DT(a, b));
//@|    }
//@  sub <<fn _deserialize_full_inner(backend:>>
//@  impl_arg
//@  ret r
//@  sub <<fn _deserialize_eps_inner<'deserialize_eps_inner_lifetime>(backend:>>
//@  ret r
//@end

//@item @derive props=C01,C02,C05,C11,C15 name=GE::DeserializeInner <<impl<V> epserde::deser::DeserializeInner for GE<V> where>>
//@  replace <<use epserde::deser::DeserializeInner;>> <<>>
//@  replace <<epserde::deser::>> <<>>
//@  body_prefix
//@|    open spec fn parse(s: Seq<u8>, pos: nat) -> PR<Self> {
//@|        if s.len() < 8 { PR::Short }
//@|        else if usize_of(s.take(8)) == 0 { PR::Val(GE::N, 8) }
//@|        else if usize_of(s.take(8)) == 1 { then2::<i32, V, Self>(s, pos, 8, |a: i32, b: V| GE::S { a, b }) }
//@|        else if usize_of(s.take(8)) == 2 { then2::<V, u8, Self>(s, pos, 8, |x: V, k: u8| GE::T(x, k)) }
//@|        else { PR::BadTag(usize_of(s.take(8))) }
//@|    }
//@|    open spec fn eps_rel<'a>(d: GE<<V as DeserializeInner>::DeserType<'a>>, v: Self) -> bool {
//@|        match (d, v) {
//@|            (GE::N, GE::N) => true,
//@|            (GE::S { a, b }, GE::S { a: a2, b: b2 }) => a == a2 && V::eps_rel(b, b2),
//@|            (GE::T(x, k), GE::T(x2, k2)) => V::eps_rel(x, x2) && k == k2,
//@|            _ => false,
//@|        }
//@|    }
//@|    proof fn lemma_prefix(s: Seq<u8>, pos: nat, k: nat) {
//@|        let kk = if k >= 8 { k } else { 8 };
//@|        if k >= 8 { assert(s.take(k as int).take(8) =~= s.take(8)); }
//@|        if usize_of(s.take(8)) == 1 { lemma_then2::<i32, V, Self>(s, pos, 8, kk, |a: i32, b: V| GE::S { a, b }); }
//@|        if usize_of(s.take(8)) == 2 { lemma_then2::<V, u8, Self>(s, pos, 8, kk, |x: V, k: u8| GE::T(x, k)); }
//@|    }
//@  sub <<fn _deserialize_full_inner(backend:>>
//@  impl_arg
//@  ret r
//@  sub <<fn _deserialize_eps_inner<'deserialize_eps_inner_lifetime>(backend:>>
//@  ret r
//@end


/// three fields one after the other, from the start
pub open spec fn fields3<A: DeserializeInner, B: DeserializeInner, C: DeserializeInner, S>(s: Seq<u8>, pos: nat, mk: spec_fn(A, B, C) -> S) -> PR<S> {
    match A::parse(s, pos) {
        PR::Val(a, n) => match B::parse(s.skip(n as int), pos + n) {
            PR::Val(b, m) => match C::parse(s.skip(n as int).skip(m as int), pos + n + m) {
                PR::Val(c, k) => PR::Val(mk(a, b, c), n + m + k),
                PR::BadTag(t) => PR::BadTag(t),
                PR::Short => PR::Short,
            },
            PR::BadTag(t) => PR::BadTag(t),
            PR::Short => PR::Short,
        },
        PR::BadTag(t) => PR::BadTag(t),
        PR::Short => PR::Short,
    }
}

//@item @derive props=C01,C02,C05,C11 name=G2::DeserializeInner <<impl<T, U> epserde::deser::DeserializeInner for G2<T, U> where>>
//@  replace <<use epserde::deser::DeserializeInner;>> <<>>
//@  replace <<epserde::deser::>> <<>>
//@  body_prefix
//@|    open spec fn parse(s: Seq<u8>, pos: nat) -> PR<Self> {
//@|        fields3::<T, U, u8, Self>(s, pos, |a: T, b: U, c: u8| G2 { a, b, c })
//@|    }
//@|    /// both parameters are field types: both are substituted (C05)
//@|    open spec fn eps_rel<'a>(d: G2<<T as DeserializeInner>::DeserType<'a>, <U as DeserializeInner>::DeserType<'a>>, v: Self) -> bool {
//@|        T::eps_rel(d.a, v.a) && U::eps_rel(d.b, v.b) && d.c == v.c
//@|    }
//@|    proof fn lemma_prefix(s: Seq<u8>, pos: nat, k: nat) {
//@|        T::lemma_prefix(s, pos, k);
//@|        let n = T::parse(s, pos)->Val_1;
//@|        let s1 = s.skip(n as int);
//@|        U::lemma_prefix(s1, pos + n, if k >= n { (k - n) as nat } else { 0 });
//@|        let m = U::parse(s1, pos + n)->Val_1;
//@|        u8::lemma_prefix(s1.skip(m as int), pos + n + m, if k >= n + m { (k - n - m) as nat } else { 0 });
//@|        if k >= n {
//@|            assert(s.take(k as int).skip(n as int) =~= s1.take(k - n));
//@|            if k >= n + m {
//@|                assert(s1.take(k - n).skip(m as int) =~= s1.skip(m as int).take(k - n - m));
//@|            }
//@|        }
//@|    }
//@  sub <<fn _deserialize_full_inner(backend:>>
//@  impl_arg
//@  ret r
//@  sub <<fn _deserialize_eps_inner<'deserialize_eps_inner_lifetime>(backend:>>
//@  ret r
//@end


// GM<T>: the parameter is only *mentioned* (`v: Vec<T>`): the field keeps its type and is
// fully copied also in eps-copy mode (C05 substitution rule) - proved for every T such that
// Vec<T> obeys the trait-level contract (which V-DESER proves for the Vec implementations)
//@item @derive props=C01,C02,C05,C11 name=GM::DeserializeInner <<impl<T> epserde::deser::DeserializeInner for GM<T> where>>
//@  replace <<use epserde::deser::DeserializeInner;>> <<>>
//@  replace <<epserde::deser::>> <<>>
//@  body_prefix
//@|    open spec fn parse(s: Seq<u8>, pos: nat) -> PR<Self> {
//@|        fields2::<Vec<T>, u16, Self>(s, pos, |v: Vec<T>, n: u16| GM { v, n })
//@|    }
//@|    /// nothing is borrowed: the eps-copy result is the value itself
//@|    open spec fn eps_rel<'a>(d: GM<T>, v: Self) -> bool { d == v }
//@|    proof fn lemma_prefix(s: Seq<u8>, pos: nat, k: nat) {
//@|        lemma_fields2::<Vec<T>, u16, Self>(s, pos, k, |v: Vec<T>, n: u16| GM { v, n });
//@|    }
//@  sub <<fn _deserialize_full_inner(backend:>>
//@  impl_arg
//@  ret r
//@  sub <<fn _deserialize_eps_inner<'deserialize_eps_inner_lifetime>(backend:>>
//@  ret r
//@end
