//@item epserde/src/traits/type_info.rs props=C07 name=MaxSizeOf <<pub trait MaxSizeOf: Sized {>>
//@  body_prefix
//@|    /// the alignment unit of the type (ghost)
//@|    spec fn unit() -> nat;
//@  sub <<fn max_size_of() -> usize;>>
//@  ret r
//@  spec
//@|        ensures r as nat == Self::unit(), is_pow2(r as int),
//@end

