//@item epserde/src/traits/copy_type.rs name=CopySelector <<pub trait CopySelector {>>
//@end
//@item epserde/src/traits/copy_type.rs name=Zero <<pub struct Zero {}>>
//@end
//@item epserde/src/traits/copy_type.rs name=Zero::CopySelector <<impl CopySelector for Zero {>>
//@end
//@item epserde/src/traits/copy_type.rs name=CopyType <<pub trait CopyType: Sized {>>
//@end
//@item epserde/src/traits/copy_type.rs name=ZeroCopy <<pub trait ZeroCopy: CopyType<Copy = Zero> + Copy + MaxSizeOf + 'static {}>>
//@end
//@item epserde/src/traits/copy_type.rs name=ZeroCopy::blanket <<impl<T: CopyType<Copy = Zero> + Copy + MaxSizeOf + 'static> ZeroCopy for T {}>>
//@end

