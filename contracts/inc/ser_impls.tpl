// =========================================================================
// implementations from impls/prim.rs
// =========================================================================

/// bounds of the real impls that the serialization bodies do not use
pub trait TypeHash {}
pub trait AlignHash {}

//@item epserde/src/impls/prim.rs props=C01,C13 name=bool::SerializeInner <<impl SerializeInner for bool {>>
//@  replace <<ser::Result>> <<SResult>>
//@  body_prefix
//@|    open spec fn enc(&self, pos: nat) -> Seq<u8> { seq![if *self { 1u8 } else { 0u8 }] }
//@  sub <<fn _serialize_inner(&self, backend: &mut impl WriteWithNames) -> ser::Result<()> {>>
//@  impl_arg
//@  ret r
//@end

//@requires bool::SerializeInner
impl RoundTrip for bool {
    proof fn lemma_rt(&self, pos: nat, rest: Seq<u8>) {
        assert((self.enc(pos) + rest).take(1) =~= self.enc(pos));
    }
}
//@endrequires

//@item epserde/src/impls/prim.rs props=C01,C13 name=unit::SerializeInner <<impl SerializeInner for () {>>
//@  replace <<ser::Result>> <<SResult>>
//@  body_prefix
//@|    open spec fn enc(&self, pos: nat) -> Seq<u8> { Seq::empty() }
//@  sub <<fn _serialize_inner(&self, _backend: &mut impl WriteWithNames) -> ser::Result<()> {>>
//@  impl_arg
//@  ret r
//@end

//@item epserde/src/impls/prim.rs props=C01,C13,C15 name=Option::SerializeInner <<impl<T: SerializeInner + TypeHash + AlignHash> SerializeInner for Option<T> {>>
//@  replace <<ser::Result>> <<SResult>>
//@  replace <<backend.write(>> <<ww_write(backend, >>
//@  body_prefix
//@|    open spec fn enc(&self, pos: nat) -> Seq<u8> {
//@|        match self {
//@|            None => seq![0u8],
//@|            Some(v) => seq![1u8] + v.enc(pos + 1),
//@|        }
//@|    }
//@  sub <<fn _serialize_inner(&self, backend: &mut impl WriteWithNames) -> ser::Result<()> {>>
//@  impl_arg
//@  ret r
//@end

//@requires Option::SerializeInner
impl<T: RoundTrip + TypeHash + AlignHash> RoundTrip for Option<T> {
    proof fn lemma_rt(&self, pos: nat, rest: Seq<u8>) {
        let s = self.enc(pos) + rest;
        match self {
            None => { assert(s.take(1) =~= seq![0u8]); },
            Some(v) => {
                assert(s.take(1) =~= seq![1u8]);
                assert(s.skip(1) =~= v.enc(pos + 1) + rest);
                v.lemma_rt(pos + 1, rest);
            },
        }
    }
}
//@endrequires

//@item epserde/src/impls/prim.rs props=C01,C13 name=PhantomData::SerializeInner <<impl<T: ?Sized> SerializeInner for PhantomData<T> {>>
//@  replace <<ser::Result>> <<SResult>>
//@  replace <<PhantomData>> <<core::marker::PhantomData>>
//@  body_prefix
//@|    open spec fn enc(&self, pos: nat) -> Seq<u8> { Seq::empty() }
//@  sub <<fn _serialize_inner(&self, _backend: &mut impl WriteWithNames) -> ser::Result<()> {>>
//@  impl_arg
//@  ret r
//@end

// =========================================================================
// implementations from impls/stdlib.rs
// =========================================================================

//@item epserde/src/impls/stdlib.rs props=C01,C13,C15 name=Bound::SerializeInner <<impl<T: SerializeInner + TypeHash + AlignHash> SerializeInner for core::ops::Bound<T> {>>
//@  replace <<ser::Result>> <<SResult>>
//@  replace <<backend.write(>> <<ww_write(backend, >>
//@  body_prefix
//@|    open spec fn enc(&self, pos: nat) -> Seq<u8> {
//@|        match self {
//@|            core::ops::Bound::Unbounded => seq![0u8],
//@|            core::ops::Bound::Included(v) => seq![1u8] + v.enc(pos + 1),
//@|            core::ops::Bound::Excluded(v) => seq![2u8] + v.enc(pos + 1),
//@|        }
//@|    }
//@  sub <<fn _serialize_inner(&self, backend: &mut impl WriteWithNames) -> ser::Result<()> {>>
//@  impl_arg
//@  ret r
//@end

//@requires Bound::SerializeInner
impl<T: RoundTrip + TypeHash + AlignHash> RoundTrip for core::ops::Bound<T> {
    proof fn lemma_rt(&self, pos: nat, rest: Seq<u8>) {
        let s = self.enc(pos) + rest;
        match self {
            core::ops::Bound::Unbounded => { assert(s.take(1) =~= seq![0u8]); },
            core::ops::Bound::Included(v) => {
                assert(s.skip(1) =~= v.enc(pos + 1) + rest);
                v.lemma_rt(pos + 1, rest);
            },
            core::ops::Bound::Excluded(v) => {
                assert(s.skip(1) =~= v.enc(pos + 1) + rest);
                v.lemma_rt(pos + 1, rest);
            },
        }
    }
}
//@endrequires

//@item epserde/src/impls/stdlib.rs props=C01,C13,C15 name=ControlFlow::SerializeInner back=impl <<SerializeInner for core::ops::ControlFlow<B, C> {>>
//@  replace <<ser::Result>> <<SResult>>
//@  replace <<backend.write(>> <<ww_write(backend, >>
//@  body_prefix
//@|    open spec fn enc(&self, pos: nat) -> Seq<u8> {
//@|        match self {
//@|            core::ops::ControlFlow::Break(v) => seq![0u8] + v.enc(pos + 1),
//@|            core::ops::ControlFlow::Continue(v) => seq![1u8] + v.enc(pos + 1),
//@|        }
//@|    }
//@  sub <<fn _serialize_inner(&self, backend: &mut impl WriteWithNames) -> ser::Result<()> {>>
//@  impl_arg
//@  ret r
//@end

//@requires ControlFlow::SerializeInner
impl<B: RoundTrip + TypeHash + AlignHash, C: RoundTrip + TypeHash + AlignHash> RoundTrip for core::ops::ControlFlow<B, C> {
    proof fn lemma_rt(&self, pos: nat, rest: Seq<u8>) {
        let s = self.enc(pos) + rest;
        match self {
            core::ops::ControlFlow::Break(v) => {
                assert(s.skip(1) =~= v.enc(pos + 1) + rest);
                v.lemma_rt(pos + 1, rest);
            },
            core::ops::ControlFlow::Continue(v) => {
                assert(s.skip(1) =~= v.enc(pos + 1) + rest);
                v.lemma_rt(pos + 1, rest);
            },
        }
    }
}
//@endrequires

//@item epserde/src/impls/stdlib.rs props=C01,C13 name=Range::SerializeInner back=impl <<SerializeInner for core::ops::Range<Idx> {>>
//@  replace <<ser::Result>> <<SResult>>
//@  replace <<backend.write(>> <<ww_write(backend, >>
//@  body_prefix
//@|    open spec fn enc(&self, pos: nat) -> Seq<u8> {
//@|        self.start.enc(pos) + self.end.enc(pos + self.start.enc(pos).len())
//@|    }
//@  sub <<fn _serialize_inner(&self, backend: &mut impl WriteWithNames) -> ser::Result<()> {>>
//@  impl_arg
//@  ret r
//@end

//@requires Range::SerializeInner
impl<Idx: ZeroCopy + RoundTrip + TypeHash + AlignHash> RoundTrip for core::ops::Range<Idx> {
    proof fn lemma_rt(&self, pos: nat, rest: Seq<u8>) {
        let e1 = self.start.enc(pos);
        let e2 = self.end.enc(pos + e1.len());
        let s = self.enc(pos) + rest;
        assert(s =~= e1 + (e2 + rest));
        self.start.lemma_rt(pos, e2 + rest);
        assert(s.skip(e1.len() as int) =~= e2 + rest);
        self.end.lemma_rt(pos + e1.len(), rest);
    }
}
//@endrequires

//@item epserde/src/impls/stdlib.rs props=C01,C13 name=RangeFrom::SerializeInner back=impl <<SerializeInner for core::ops::RangeFrom<Idx> {>>
//@  replace <<ser::Result>> <<SResult>>
//@  replace <<backend.write(>> <<ww_write(backend, >>
//@  body_prefix
//@|    open spec fn enc(&self, pos: nat) -> Seq<u8> { self.start.enc(pos) }
//@  sub <<fn _serialize_inner(&self, backend: &mut impl WriteWithNames) -> ser::Result<()> {>>
//@  impl_arg
//@  ret r
//@end

//@requires RangeFrom::SerializeInner
impl<Idx: ZeroCopy + RoundTrip + TypeHash + AlignHash> RoundTrip for core::ops::RangeFrom<Idx> {
    proof fn lemma_rt(&self, pos: nat, rest: Seq<u8>) { self.start.lemma_rt(pos, rest); }
}
//@endrequires

//@item epserde/src/impls/stdlib.rs props=C01,C13 name=RangeTo::SerializeInner back=impl <<SerializeInner for core::ops::RangeTo<Idx> {>>
//@  replace <<ser::Result>> <<SResult>>
//@  replace <<backend.write(>> <<ww_write(backend, >>
//@  body_prefix
//@|    open spec fn enc(&self, pos: nat) -> Seq<u8> { self.end.enc(pos) }
//@  sub <<fn _serialize_inner(&self, backend: &mut impl WriteWithNames) -> ser::Result<()> {>>
//@  impl_arg
//@  ret r
//@end

//@requires RangeTo::SerializeInner
impl<Idx: ZeroCopy + RoundTrip + TypeHash + AlignHash> RoundTrip for core::ops::RangeTo<Idx> {
    proof fn lemma_rt(&self, pos: nat, rest: Seq<u8>) { self.end.lemma_rt(pos, rest); }
}
//@endrequires

//@item epserde/src/impls/stdlib.rs props=C01,C13 name=RangeToInclusive::SerializeInner back=impl <<SerializeInner for core::ops::RangeToInclusive<Idx> {>>
//@  replace <<ser::Result>> <<SResult>>
//@  replace <<backend.write(>> <<ww_write(backend, >>
//@  body_prefix
//@|    open spec fn enc(&self, pos: nat) -> Seq<u8> { self.end.enc(pos) }
//@  sub <<fn _serialize_inner(&self, backend: &mut impl WriteWithNames) -> ser::Result<()> {>>
//@  impl_arg
//@  ret r
//@end

//@requires RangeToInclusive::SerializeInner
impl<Idx: ZeroCopy + RoundTrip + TypeHash + AlignHash> RoundTrip for core::ops::RangeToInclusive<Idx> {
    proof fn lemma_rt(&self, pos: nat, rest: Seq<u8>) { self.end.lemma_rt(pos, rest); }
}
//@endrequires

//@item epserde/src/impls/stdlib.rs props=C01,C13 name=RangeFull::SerializeInner <<impl SerializeInner for core::ops::RangeFull {>>
//@  replace <<ser::Result>> <<SResult>>
//@  body_prefix
//@|    open spec fn enc(&self, pos: nat) -> Seq<u8> { Seq::empty() }
//@  sub <<fn _serialize_inner(&self, _backend: &mut impl WriteWithNames) -> ser::Result<()> {>>
//@  impl_arg
//@  ret r
//@end

// =========================================================================
// sequences (ser/helpers.rs): any length, any element type under contract
// =========================================================================

/// the first k items one after the other, each at the offset the previous one ends
pub open spec fn enc_items<V: SerializeInner>(vs: Seq<V>, pos: nat, k: nat) -> Seq<u8>
    decreases k
{
    if k == 0 {
        Seq::empty()
    } else {
        let p = enc_items(vs, pos, (k - 1) as nat);
        p + vs[k - 1].enc(pos + p.len())
    }
}

/// pointer-width length, then the items
pub open spec fn enc_seq_deep<V: SerializeInner>(vs: Seq<V>, pos: nat) -> Seq<u8> {
    usize_bytes(vs.len() as usize) + enc_items(vs, pos + 8, vs.len())
}

pub proof fn lemma_enc_items_prefix<V: SerializeInner>(vs: Seq<V>, pos: nat, i: nat, n: nat)
    requires i <= n,
    ensures is_prefix(enc_items(vs, pos, i), enc_items(vs, pos, n)),
    decreases n
{
    if i < n {
        lemma_enc_items_prefix(vs, pos, i, (n - 1) as nat);
        let p = enc_items(vs, pos, (n - 1) as nat);
        lemma_prefix_ext(p, vs[n - 1].enc(pos + p.len()), Seq::empty());
        lemma_prefix_trans(enc_items(vs, pos, i), p, enc_items(vs, pos, n));
    }
}

/// C01 for deep sequences of any length
pub proof fn lemma_rt_items<V: RoundTrip>(vs: Seq<V>, pos: nat, k: nat, rest: Seq<u8>)
    requires k <= vs.len(),
    ensures parse_items::<V>(enc_items(vs, pos, k) + rest, pos, k) == PR::Val(vs.take(k as int), enc_items(vs, pos, k).len()),
    decreases k
{
    if k == 0 {
        assert(vs.take(0) =~= Seq::<V>::empty());
    } else {
        let k1 = (k - 1) as nat;
        let p = enc_items(vs, pos, k1);
        let e = vs[k - 1].enc(pos + p.len());
        let s = enc_items(vs, pos, k) + rest;
        assert(s =~= p + (e + rest));
        lemma_rt_items(vs, pos, k1, e + rest);
        assert(s.skip(p.len() as int) =~= e + rest);
        vs[k - 1].lemma_rt(pos + p.len(), rest);
        assert(vs.take(k1 as int).push(vs[k - 1]) =~= vs.take(k as int));
    }
}

pub proof fn lemma_rt_seq_deep<V: RoundTrip>(vs: Seq<V>, pos: nat, rest: Seq<u8>)
    requires vs.len() <= usize::MAX,
    ensures parse_seq_deep::<V>(enc_seq_deep(vs, pos) + rest, pos) == PR::Val(vs, enc_seq_deep(vs, pos).len()),
{
    let len = vs.len() as usize;
    let items = enc_items(vs, pos + 8, vs.len());
    let s = enc_seq_deep(vs, pos) + rest;
    axiom_ne_bytes();
    assert(s =~= usize_bytes(len) + (items + rest));
    len.lemma_rt(pos, items + rest);
    assert(s.skip(8) =~= items + rest);
    lemma_rt_items(vs, pos + 8, vs.len(), rest);
    assert(vs.take(vs.len() as int) =~= vs);
}

//@item epserde/src/ser/helpers.rs props=C01,C13 name=serialize_slice_deep <<pub fn serialize_slice_deep<V: SerializeInner>(>>
//@  replace <<ser::Result>> <<SResult>>
//@  replace <<backend.write(>> <<ww_write(backend, >>
//@  replace <<check_mismatch::<V>();>> <<>>
//@  impl_arg
//@  ret r
//@  spec
//@|    requires ser_pre::<ImplArg0>(enc_seq_deep(data@, old(backend).wpos()), old(backend)),
//@|    ensures ser_post::<ImplArg0>(enc_seq_deep(data@, old(backend).wpos()), old(backend), final(backend), r),
//@  body_prefix
//@|    let ghost sink0 = backend.sink();
//@|    let ghost pos0 = backend.wpos();
//@|    let ghost total = enc_seq_deep(data@, pos0);
//@|    let ghost head = usize_bytes(data@.len() as usize);
//@|    proof {
//@|        axiom_ne_bytes();
//@|        assert forall|s2: Seq<u8>| is_prefix(sink0, s2) && #[trigger] is_prefix(s2, sink0 + head)
//@|            implies is_prefix(s2, sink0 + total) by {
//@|            lemma_err_first(sink0, head, enc_items(data@, pos0 + 8, data@.len()), s2);
//@|        }
//@|    }
//@  loop_iter 1 it
//@  loop 1
//@|        invariant
//@|            backend.wf(),
//@|            backend.fin_sink() == old(backend).fin_sink(), backend.fin_wf() == old(backend).fin_wf(),
//@|            it.index@ <= data@.len(),
//@|            sink0 == old(backend).sink(), pos0 == old(backend).wpos(), pos0 <= sink0.len(),
//@|            total == enc_seq_deep(data@, pos0), head == usize_bytes(data@.len() as usize), head.len() == 8,
//@|            sink0.len() + total.len() <= usize::MAX,
//@|            backend.sink() =~= sink0 + head + enc_items(data@, pos0 + 8, it.index@ as nat),
//@|            backend.wpos() == pos0 + 8 + enc_items(data@, pos0 + 8, it.index@ as nat).len(),
//@  loop_body_prefix 1
//@|        proof {
//@|            let i = it.index@ as nat;
//@|            let n = data@.len();
//@|            let done = enc_items(data@, pos0 + 8, i);
//@|            let e = data@[i as int].enc(pos0 + 8 + done.len());
//@|            assert(enc_items(data@, pos0 + 8, i + 1) =~= done + e);
//@|            lemma_enc_items_prefix(data@, pos0 + 8, i + 1, n);
//@|            let all = enc_items(data@, pos0 + 8, n);
//@|            assert(total =~= head + all);
//@|            // room for this item
//@|            assert((done + e).len() <= all.len());
//@|            // a failure inside this item leaves a prefix of the whole encoding
//@|            assert forall|s2: Seq<u8>| is_prefix(sink0 + head + done, s2) && #[trigger] is_prefix(s2, sink0 + head + done + e)
//@|                implies is_prefix(sink0, s2) && is_prefix(s2, sink0 + total) by {
//@|                lemma_prefix_ext(sink0, head + done, Seq::empty());
//@|                assert(sink0 + head + done =~= sink0 + (head + done));
//@|                lemma_prefix_trans(sink0, sink0 + (head + done), s2);
//@|                assert(sink0 + head + done + e =~= sink0 + head + (done + e));
//@|                assert(is_prefix(sink0 + head + (done + e), sink0 + head + all)) by {
//@|                    let a = sink0 + head + (done + e);
//@|                    let b = sink0 + head + all;
//@|                    assert(a =~= b.take(a.len() as int)) by {
//@|                        assert forall|j: int| 0 <= j < a.len() implies a[j] == b[j] by {
//@|                            if j >= (sink0 + head).len() {
//@|                                assert((done + e)[j - (sink0 + head).len()] == all.take((done + e).len() as int)[j - (sink0 + head).len()]);
//@|                            }
//@|                        }
//@|                    }
//@|                }
//@|                assert(sink0 + head + all =~= sink0 + total);
//@|                lemma_prefix_trans(s2, sink0 + head + (done + e), sink0 + total);
//@|            }
//@|        }
//@  loop_body_suffix 1
//@|        proof {
//@|            let i = it.index@ as nat;
//@|            let done = enc_items(data@, pos0 + 8, i);
//@|            let e = data@[i as int].enc(pos0 + 8 + done.len());
//@|            assert(sink0 + head + done + e =~= sink0 + head + enc_items(data@, pos0 + 8, i + 1));
//@|        }
//@end

// =========================================================================
// zero-copy values and sequences (ser/helpers.rs). (The bound `SerializeInner` of
// serialize_zero / serialize_zero_unchecked is used only by the removed run-time check
// and is dropped - recorded replacement -: with it, `[T; N]: SerializeHelper<Zero>` calling
// serialize_zero::<[T; N]> is a cycle of trait implementations for Verus.)
// The memory image of a value
// is uninterpreted (`bytes_of`, `bytes_of_seq`); `core::slice::from_raw_parts`
// over a pointer cast is outside Verus' reach and is replaced by an assumed
// function returning that image. What is proved: the length field, the
// minimal zero gap in front of the image (C07), that nothing else is written,
// and the prefix property on failure (C13).
// =========================================================================

pub uninterp spec fn bytes_of<V>(v: V) -> Seq<u8>;
/// the same memory image the readers decode (deser_impls.tpl)
pub open spec fn bytes_of_seq<V>(vs: Seq<V>) -> Seq<u8> { image_seq::<V>(vs) }

#[verifier::external_body]
pub fn assumed_image<'a, V>(value: &'a V) -> (r: &'a [u8])
    ensures r@ == bytes_of(*value), r@.len() == vstd::layout::size_of::<V>(),
{ unimplemented!() }

#[verifier::external_body]
pub fn assumed_image_slice<'a, V>(data: &'a [V]) -> (r: &'a [u8])
    ensures r@ == bytes_of_seq(data@), r@.len() == data@.len() * vstd::layout::size_of::<V>(),
{ unimplemented!() }

pub open spec fn enc_zero<V: MaxSizeOf>(v: V, pos: nat) -> Seq<u8> {
    zeros(pad_spec(pos as int, V::unit() as int) as nat) + bytes_of(v)
}

pub open spec fn enc_seq_zero<V: MaxSizeOf>(vs: Seq<V>, pos: nat) -> Seq<u8> {
    usize_bytes(vs.len() as usize) + zeros(pad_spec(pos as int + 8, V::unit() as int) as nat) + bytes_of_seq(vs)
}

//@item epserde/src/ser/helpers.rs props=C01,C07,C13 name=serialize_zero <<pub fn serialize_zero<V: ZeroCopy + SerializeInner>(>>
//@  replace <<V: ZeroCopy + SerializeInner>> <<V: ZeroCopy>>
//@  replace <<ser::Result>> <<SResult>>
//@  replace <<check_zero_copy::<V>();>> <<>>
//@  impl_arg
//@  ret r
//@  spec
//@|    requires ser_pre::<ImplArg0>(enc_zero::<V>(*value, old(backend).wpos()), old(backend)),
//@|    ensures ser_post::<ImplArg0>(enc_zero::<V>(*value, old(backend).wpos()), old(backend), final(backend), r),
//@  body_prefix
//@|    let ghost sink0 = backend.sink();
//@|    let ghost gap = zeros(pad_spec(backend.wpos() as int, V::unit() as int) as nat);
//@|    proof {
//@|        assert forall|s2: Seq<u8>| is_prefix(sink0, s2) && #[trigger] is_prefix(s2, sink0 + gap)
//@|            implies is_prefix(s2, sink0 + (gap + bytes_of(*value))) by {
//@|            lemma_err_first(sink0, gap, bytes_of(*value), s2);
//@|        }
//@|        assert forall|s2: Seq<u8>| is_prefix(sink0 + gap, s2) && #[trigger] is_prefix(s2, sink0 + gap + bytes_of(*value))
//@|            implies is_prefix(sink0, s2) && is_prefix(s2, sink0 + (gap + bytes_of(*value))) by {
//@|            lemma_err_second(sink0, gap, bytes_of(*value), s2);
//@|        }
//@|        assert(sink0 + gap + bytes_of(*value) =~= sink0 + (gap + bytes_of(*value)));
//@|    }
//@end

//@item epserde/src/ser/helpers.rs props=C01,C07,C13 name=serialize_zero_unchecked <<pub fn serialize_zero_unchecked<V: ZeroCopy + SerializeInner>(>>
//@  replace <<V: ZeroCopy + SerializeInner>> <<V: ZeroCopy>>
//@  replace <<ser::Result>> <<SResult>>
//@  replace <<core::slice::from_raw_parts(value as *const V as *const u8, core::mem::size_of::<V>())>> <<assumed_image(value)>>
//@  impl_arg
//@  ret r
//@  spec
//@|    requires old(backend).wf(), old(backend).sink().len() + bytes_of(*value).len() <= usize::MAX,
//@|    ensures final(backend).wf(),
//@|        final(backend).fin_sink() == old(backend).fin_sink(), final(backend).fin_wf() == old(backend).fin_wf(),
//@|        match r {
//@|            Ok(()) => final(backend).sink() =~= old(backend).sink() + bytes_of(*value)
//@|                && final(backend).wpos() == old(backend).wpos() + bytes_of(*value).len(),
//@|            Err(e) => e is WriteError
//@|                && is_prefix(old(backend).sink(), final(backend).sink())
//@|                && is_prefix(final(backend).sink(), old(backend).sink() + bytes_of(*value)),
//@|        },
//@end

//@item epserde/src/ser/helpers.rs props=C01,C07,C13 name=serialize_slice_zero <<pub fn serialize_slice_zero<V: SerializeInner + ZeroCopy>(>>
//@  replace <<ser::Result>> <<SResult>>
//@  replace <<backend.write(>> <<ww_write(backend, >>
//@  replace <<check_zero_copy::<V>();>> <<>>
//@  replace <<core::slice::from_raw_parts(data.as_ptr() as *const u8, len * core::mem::size_of::<V>())>> <<assumed_image_slice(data)>>
//@  impl_arg
//@  ret r
//@  spec
//@|    requires ser_pre::<ImplArg0>(enc_seq_zero::<V>(data@, old(backend).wpos()), old(backend)),
//@|    ensures ser_post::<ImplArg0>(enc_seq_zero::<V>(data@, old(backend).wpos()), old(backend), final(backend), r),
//@  body_prefix
//@|    let ghost sink0 = backend.sink();
//@|    let ghost pos0 = backend.wpos();
//@|    let ghost head = usize_bytes(data@.len() as usize);
//@|    let ghost gap = zeros(pad_spec(pos0 as int + 8, V::unit() as int) as nat);
//@|    let ghost img = bytes_of_seq(data@);
//@|    proof {
//@|        axiom_ne_bytes();
//@|        assert forall|s2: Seq<u8>| is_prefix(sink0, s2) && #[trigger] is_prefix(s2, sink0 + head)
//@|            implies is_prefix(s2, sink0 + (head + gap + img)) by {
//@|            lemma_err_first(sink0, head, gap + img, s2);
//@|            assert(head + (gap + img) =~= head + gap + img);
//@|        }
//@|        assert forall|s2: Seq<u8>| is_prefix(sink0 + head, s2) && #[trigger] is_prefix(s2, sink0 + head + gap)
//@|            implies is_prefix(sink0, s2) && is_prefix(s2, sink0 + (head + gap + img)) by {
//@|            lemma_err_second(sink0, head, gap, s2);
//@|            lemma_err_first(sink0, head + gap, img, s2);
//@|        }
//@|        assert forall|s2: Seq<u8>| is_prefix(sink0 + head + gap, s2) && #[trigger] is_prefix(s2, sink0 + head + gap + img)
//@|            implies is_prefix(sink0, s2) && is_prefix(s2, sink0 + (head + gap + img)) by {
//@|            assert(sink0 + head + gap =~= sink0 + (head + gap));
//@|            assert(sink0 + head + gap + img =~= sink0 + (head + gap) + img);
//@|            lemma_err_second(sink0, head + gap, img, s2);
//@|        }
//@|        assert(sink0 + head + gap + img =~= sink0 + (head + gap + img));
//@|    }
//@end
